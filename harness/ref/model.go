package ref

import (
	"bytes"
	"sort"
)

// Model is the sequential reference model of one log directory.
type Model struct {
	Next int64 // one more than the largest offset ever assigned
	Live []Msg // strictly increasing offsets
	Cfg  IndexCfg
}

func (m *Model) Clone() *Model {
	c := *m
	c.Live = append([]Msg(nil), m.Live...)
	return &c
}

// Publish appends msgs with offsets Next.. and returns the new Next.
// The caller passes the times klevdb wrote back.
func (m *Model) Publish(msgs []Msg) int64 {
	for _, x := range msgs {
		x.Offset = m.Next
		m.Live = append(m.Live, x)
		m.Next++
	}
	return m.Next
}

// IdxAtOrAfter returns the index in Live of the first message with offset >= off (len if none).
func (m *Model) IdxAtOrAfter(off int64) int {
	return sort.Search(len(m.Live), func(i int) bool { return m.Live[i].Offset >= off })
}

func (m *Model) Get(off int64) (Msg, bool) {
	i := m.IdxAtOrAfter(off)
	if i < len(m.Live) && m.Live[i].Offset == off {
		return m.Live[i], true
	}
	return Msg{}, false
}

func (m *Model) IsLive(off int64) bool { _, ok := m.Get(off); return ok }

// Remove deletes the given offsets (which must be live) from the model.
func (m *Model) Remove(offs map[int64]struct{}) {
	out := m.Live[:0:0]
	for _, x := range m.Live {
		if _, ok := offs[x.Offset]; !ok {
			out = append(out, x)
		}
	}
	m.Live = out
}

func (m *Model) LastWithKey(k []byte) (Msg, bool) {
	for i := len(m.Live) - 1; i >= 0; i-- {
		if bytes.Equal(m.Live[i].Key, k) {
			return m.Live[i], true
		}
	}
	return Msg{}, false
}

func (m *Model) WithKey(k []byte) []Msg {
	var out []Msg
	for _, x := range m.Live {
		if bytes.Equal(x.Key, k) {
			out = append(out, x)
		}
	}
	return out
}

// FirstAtOrAfterTime returns the live message with the smallest offset whose time >= t.
func (m *Model) FirstAtOrAfterTime(t int64) (Msg, bool) {
	for _, x := range m.Live {
		if x.T >= t {
			return x, true
		}
	}
	return Msg{}, false
}

// TimesNonDecreasing reports whether message times never decrease with offset.
func TimesNonDecreasing(live []Msg) bool {
	for i := 1; i < len(live); i++ {
		if live[i].T < live[i-1].T {
			return false
		}
	}
	return true
}

// LatestByKey maps each key (as string) to the value of its last live message;
// value-less last messages mean the key is absent.
func LatestByKey(live []Msg) map[string]string {
	out := map[string]string{}
	for _, x := range live {
		if len(x.Value) == 0 {
			delete(out, string(x.Key))
		} else {
			out[string(x.Key)] = string(x.Value)
		}
	}
	return out
}

func OffsetsOf(msgs []Msg) []int64 {
	out := make([]int64, len(msgs))
	for i, x := range msgs {
		out[i] = x.Offset
	}
	return out
}
