// Package ref holds the reference side of the monitors: an independent codec of the
// documented klevdb file layouts and a deliberately dumb sequential model of one log.
// It does NOT import any klevdb package.
package ref

import (
	"bytes"
	"encoding/binary"
	"errors"
	"fmt"
	"hash/crc32"
	"hash/fnv"
)

// Msg is a message as the reference side sees it. T is unix microseconds.
// Key/Value: nil and empty are the same thing on disk (length 0).
type Msg struct {
	Offset int64
	T      int64
	Key    []byte
	Value  []byte
}

func (m Msg) Equal(o Msg) bool {
	return m.Offset == o.Offset && m.T == o.T && bytes.Equal(m.Key, o.Key) && bytes.Equal(m.Value, o.Value)
}

func (m Msg) String() string {
	return fmt.Sprintf("{off=%d t=%d k=%q v=%dB}", m.Offset, m.T, trunc(m.Key, 16), len(m.Value))
}

func trunc(b []byte, n int) []byte {
	if len(b) > n {
		return b[:n]
	}
	return b
}

// Version of a file layout.
type Version int

const (
	VNone Version = 0 // e.g. a 0-byte file: no version detectable
	V1    Version = 1
	V2    Version = 2
)

func (v Version) String() string { return [...]string{"V?", "V1", "V2"}[v] }

var castagnoli = crc32.MakeTable(crc32.Castagnoli)

var LogMagic = []byte{0xFF, 'k', 'l', 'e', 'v', 's'}
var IndexMagic = []byte{0xFF, 'k', 'l', 'e', 'v', 'i'}

const (
	FileHeaderSize = 8
	MaxBody        = 64 * 1024 * 1024
	V1RecordHeader = 28
	V2RecordHeader = 28
	V2Trailer      = 8
)

var trailer = []byte{0xDE, 0xAD, 0xBE, 0xEF, 0xFE, 0xED, 0xFA, 0xCE}

// LogHeader returns the file header of a log file of version v (empty for V1).
func LogHeader(v Version) []byte {
	if v == V2 {
		return []byte{0xFF, 'k', 'l', 'e', 'v', 's', 1, 0}
	}
	return nil
}

// IndexCfg is the index layout configuration.
type IndexCfg struct {
	Times bool
	Keys  bool
}

func (c IndexCfg) ItemSize() int {
	n := 16
	if c.Times {
		n += 8
	}
	if c.Keys {
		n += 8
	}
	return n
}

func (c IndexCfg) String() string {
	switch {
	case c.Times && c.Keys:
		return "both"
	case c.Times:
		return "times"
	case c.Keys:
		return "keys"
	}
	return "none"
}

// IndexHeader returns the file header of an index file.
func IndexHeader(v Version, c IndexCfg) []byte {
	if v != V2 {
		return nil
	}
	var flags byte
	if c.Times {
		flags |= 1
	}
	if c.Keys {
		flags |= 2
	}
	return []byte{0xFF, 'k', 'l', 'e', 'v', 'i', 1, flags}
}

// RecordSize is the number of bytes one record occupies in a log of version v.
func RecordSize(m Msg, v Version) int {
	if v == V1 {
		return V1RecordHeader + len(m.Key) + len(m.Value)
	}
	return V2RecordHeader + len(m.Key) + len(m.Value) + V2Trailer
}

// EncodeRecord appends the record for m in layout v to dst.
func EncodeRecord(dst []byte, m Msg, v Version) []byte {
	switch v {
	case V1:
		// offset(8) | unixMicro(8) | keyLen(4) | valLen(4) | crc32c(4) | key | value ; CRC over key||value
		var h [V1RecordHeader]byte
		binary.BigEndian.PutUint64(h[0:], uint64(m.Offset))
		binary.BigEndian.PutUint64(h[8:], uint64(m.T))
		binary.BigEndian.PutUint32(h[16:], uint32(len(m.Key)))
		binary.BigEndian.PutUint32(h[20:], uint32(len(m.Value)))
		c := crc32.New(castagnoli)
		c.Write(m.Key)
		c.Write(m.Value)
		binary.BigEndian.PutUint32(h[24:], c.Sum32())
		dst = append(dst, h[:]...)
		dst = append(dst, m.Key...)
		dst = append(dst, m.Value...)
	case V2:
		// crc32c(4) | offset(8) | unixMicro(8) | keyLen(4) | valLen(4) | key | value | trailer(8); CRC over all after the CRC field
		start := len(dst)
		var h [V2RecordHeader]byte
		binary.BigEndian.PutUint64(h[4:], uint64(m.Offset))
		binary.BigEndian.PutUint64(h[12:], uint64(m.T))
		binary.BigEndian.PutUint32(h[20:], uint32(len(m.Key)))
		binary.BigEndian.PutUint32(h[24:], uint32(len(m.Value)))
		dst = append(dst, h[:]...)
		dst = append(dst, m.Key...)
		dst = append(dst, m.Value...)
		dst = append(dst, trailer...)
		sum := crc32.Checksum(dst[start+4:], castagnoli)
		binary.BigEndian.PutUint32(dst[start:], sum)
	default:
		panic("EncodeRecord: bad version")
	}
	return dst
}

// EncodeLog builds a whole log file.
func EncodeLog(msgs []Msg, v Version) []byte {
	out := append([]byte(nil), LogHeader(v)...)
	for _, m := range msgs {
		out = EncodeRecord(out, m, v)
	}
	return out
}

var (
	ErrShort   = errors.New("ref: short record")
	ErrFraming = errors.New("ref: bad record framing")
	ErrCRC     = errors.New("ref: crc mismatch")
)

// DecodeRecord decodes one record at data[pos:]. It returns the message and the position
// of the next record. io-style: pos == len(data) is a clean end and returns (Msg{}, pos, nil, true).
func DecodeRecord(data []byte, pos int, v Version) (m Msg, next int, err error) {
	rest := data[pos:]
	switch v {
	case V1:
		if len(rest) < V1RecordHeader {
			return m, pos, ErrShort
		}
		m.Offset = int64(binary.BigEndian.Uint64(rest[0:]))
		m.T = int64(binary.BigEndian.Uint64(rest[8:]))
		kl := int32(binary.BigEndian.Uint32(rest[16:]))
		vl := int32(binary.BigEndian.Uint32(rest[20:]))
		want := binary.BigEndian.Uint32(rest[24:])
		if kl < 0 || vl < 0 || int64(kl)+int64(vl) > MaxBody {
			return m, pos, ErrFraming
		}
		n := V1RecordHeader + int(kl) + int(vl)
		if len(rest) < n {
			return m, pos, ErrShort
		}
		body := rest[V1RecordHeader:n]
		if crc32.Checksum(body, castagnoli) != want {
			return m, pos, ErrCRC
		}
		if kl > 0 {
			m.Key = append([]byte(nil), body[:kl]...)
		}
		if vl > 0 {
			m.Value = append([]byte(nil), body[kl:]...)
		}
		return m, pos + n, nil
	case V2:
		if len(rest) < V2RecordHeader {
			return m, pos, ErrShort
		}
		want := binary.BigEndian.Uint32(rest[0:])
		m.Offset = int64(binary.BigEndian.Uint64(rest[4:]))
		m.T = int64(binary.BigEndian.Uint64(rest[12:]))
		kl := int32(binary.BigEndian.Uint32(rest[20:]))
		vl := int32(binary.BigEndian.Uint32(rest[24:]))
		if kl < 0 || vl < 0 || int64(kl)+int64(vl) > MaxBody {
			return m, pos, ErrFraming
		}
		n := V2RecordHeader + int(kl) + int(vl) + V2Trailer
		if len(rest) < n {
			return m, pos, ErrShort
		}
		if crc32.Checksum(rest[4:n], castagnoli) != want {
			return m, pos, ErrCRC
		}
		if !bytes.Equal(rest[n-V2Trailer:n], trailer) {
			return m, pos, ErrFraming
		}
		if kl > 0 {
			m.Key = append([]byte(nil), rest[V2RecordHeader:V2RecordHeader+int(kl)]...)
		}
		if vl > 0 {
			m.Value = append([]byte(nil), rest[V2RecordHeader+int(kl):n-V2Trailer]...)
		}
		return m, pos + n, nil
	}
	return m, pos, fmt.Errorf("ref: bad version")
}

// SniffLog determines the layout version of a log file from its first bytes and the
// base offset in its name. A 0-byte file has no version (VNone, ok=true).
func SniffLog(data []byte, base int64) (Version, bool) {
	if len(data) == 0 {
		return VNone, true
	}
	if len(data) < FileHeaderSize {
		return VNone, false
	}
	if bytes.HasPrefix(data, LogMagic) {
		if data[6] == 1 && data[7] == 0 {
			return V2, true
		}
		return VNone, false
	}
	if int64(binary.BigEndian.Uint64(data)) == base {
		return V1, true
	}
	return VNone, false
}

// Span is the byte range of one record in a log file.
type Span struct {
	Start, End int // [Start, End)
	Msg        Msg
}

// ParseLog parses the longest valid prefix of records. It returns the spans of the valid
// records, the position where parsing stopped and whether the whole file was consumed
// (clean == true iff every byte belongs to the header or to a valid record).
// For VNone (empty file) the result is no records, clean.
func ParseLog(data []byte, base int64) (v Version, spans []Span, end int, clean bool, headerOK bool) {
	v, ok := SniffLog(data, base)
	if !ok {
		return v, nil, 0, false, false
	}
	if v == VNone {
		return v, nil, 0, true, true
	}
	pos := len(LogHeader(v))
	for pos < len(data) {
		m, next, err := DecodeRecord(data, pos, v)
		if err != nil {
			return v, spans, pos, false, true
		}
		spans = append(spans, Span{pos, next, m})
		pos = next
	}
	return v, spans, pos, true, true
}

func Msgs(spans []Span) []Msg {
	out := make([]Msg, len(spans))
	for i, s := range spans {
		out[i] = s.Msg
	}
	return out
}

// Item is one index entry.
type Item struct {
	Offset    int64
	Position  int64
	Timestamp int64
	KeyHash   uint64
}

func KeyHash(key []byte) uint64 {
	h := fnv.New64a()
	h.Write(key)
	return h.Sum64()
}

// DeriveIndex computes the index a log file implies: position of each record, running
// maximum of the message times inside the file, FNV-1a-64 of the key.
func DeriveIndex(spans []Span, c IndexCfg) []Item {
	items := make([]Item, len(spans))
	var ts int64
	for i, s := range spans {
		it := Item{Offset: s.Msg.Offset, Position: int64(s.Start)}
		if c.Times {
			if s.Msg.T > ts {
				ts = s.Msg.T
			}
			// running max starts at 0, so a negative time yields 0
			it.Timestamp = ts
		}
		if c.Keys {
			it.KeyHash = KeyHash(s.Msg.Key)
		}
		items[i] = it
	}
	return items
}

// EncodeIndex builds a whole index file.
func EncodeIndex(items []Item, v Version, c IndexCfg) []byte {
	out := append([]byte(nil), IndexHeader(v, c)...)
	for _, it := range items {
		var b [32]byte
		binary.BigEndian.PutUint64(b[0:], uint64(it.Offset))
		binary.BigEndian.PutUint64(b[8:], uint64(it.Position))
		n := 16
		if c.Times {
			binary.BigEndian.PutUint64(b[n:], uint64(it.Timestamp))
			n += 8
		}
		if c.Keys {
			binary.BigEndian.PutUint64(b[n:], it.KeyHash)
			n += 8
		}
		out = append(out, b[:n]...)
	}
	return out
}

// DecodeIndex parses an index file. A 0-byte file is an empty (V1-form) index.
func DecodeIndex(data []byte, base int64, c IndexCfg) (Version, []Item, error) {
	if len(data) == 0 {
		return VNone, nil, nil
	}
	if len(data) < FileHeaderSize {
		return VNone, nil, fmt.Errorf("ref: index shorter than a header (%d)", len(data))
	}
	v := V1
	body := data
	if bytes.HasPrefix(data, IndexMagic) {
		if data[6] != 1 {
			return VNone, nil, fmt.Errorf("ref: index version byte %d", data[6])
		}
		flags := data[7]
		if flags&^3 != 0 || (flags&1 != 0) != c.Times || (flags&2 != 0) != c.Keys {
			return VNone, nil, fmt.Errorf("ref: index flags %02x do not match cfg %v", flags, c)
		}
		v = V2
		body = data[FileHeaderSize:]
	} else if int64(binary.BigEndian.Uint64(data)) != base {
		return VNone, nil, fmt.Errorf("ref: index has neither magic nor base offset")
	}
	sz := c.ItemSize()
	if len(body)%sz != 0 {
		return v, nil, fmt.Errorf("ref: index body %d not a multiple of %d", len(body), sz)
	}
	items := make([]Item, len(body)/sz)
	for i := range items {
		b := body[i*sz:]
		items[i].Offset = int64(binary.BigEndian.Uint64(b[0:]))
		items[i].Position = int64(binary.BigEndian.Uint64(b[8:]))
		n := 16
		if c.Times {
			items[i].Timestamp = int64(binary.BigEndian.Uint64(b[n:]))
			n += 8
		}
		if c.Keys {
			items[i].KeyHash = binary.BigEndian.Uint64(b[n:])
		}
	}
	return v, items, nil
}

// ItemsEqual compares two indexes; when withTimes is false the Timestamp column is ignored.
func ItemsEqual(a, b []Item, withTimes bool) (bool, string) {
	if len(a) != len(b) {
		return false, fmt.Sprintf("len %d != %d", len(a), len(b))
	}
	for i := range a {
		x, y := a[i], b[i]
		if !withTimes {
			x.Timestamp, y.Timestamp = 0, 0
		}
		if x != y {
			return false, fmt.Sprintf("item %d: %+v != %+v", i, a[i], b[i])
		}
	}
	return true, ""
}

// SegName returns the file names of the segment with base offset.
func SegName(base int64) (log, index string) {
	return fmt.Sprintf("%020d.log", base), fmt.Sprintf("%020d.index", base)
}
