// Command fstrace-selftest is the self-test companion of package fstrace.
//
//	fstrace-selftest workload <root> <marker> [seed]
//	    scripted file-system workload in <root>; markers go to <marker>.
//	    With the mode name "workload-copy" it additionally copies a file
//	    into root with io.Copy (copy_file_range), which the parser must
//	    report as Unsupported.
//	fstrace-selftest verify <tracefile> <root> <marker>
//	    parses the strace output of a workload run, replays all events and
//	    compares the result with <root> and <marker>.
//	fstrace-selftest dump <tracefile> <root> <marker>
//	    prints the events of a trace (debugging aid).
package main

import (
	"errors"
	"fmt"
	"io"
	"math/rand/v2"
	"os"
	"path/filepath"
	"sort"
	"strconv"
	"sync"
	"time"

	"verifharness/fstrace"
)

func main() {
	if len(os.Args) < 2 {
		usage()
	}
	switch os.Args[1] {
	case "workload", "workload-copy":
		if len(os.Args) < 4 || len(os.Args) > 5 {
			usage()
		}
		seed := uint64(1)
		if len(os.Args) == 5 {
			s, err := strconv.ParseUint(os.Args[4], 10, 64)
			if err != nil {
				fatal("bad seed: %v", err)
			}
			seed = s
		}
		if err := workload(os.Args[2], os.Args[3], seed, os.Args[1] == "workload-copy"); err != nil {
			fatal("workload: %v", err)
		}
	case "verify":
		if len(os.Args) != 5 {
			usage()
		}
		rep, err := fstrace.SelfCheck(os.Args[2], os.Args[3], os.Args[4])
		if rep != nil && rep.Trace != nil {
			fmt.Print(rep)
		}
		if err != nil {
			fmt.Println("MISMATCH:", err)
			os.Exit(1)
		}
		fmt.Println("OK")
	case "dump":
		// Debugging aid: print every event of a trace.
		if len(os.Args) != 5 {
			usage()
		}
		tr, err := fstrace.Parse(os.Args[2], os.Args[3], os.Args[4])
		if err != nil {
			fatal("parse: %v", err)
		}
		for _, e := range tr.Events {
			fmt.Printf("%6d line %-7d %s\n", e.Seq, e.Line, e)
		}
		fmt.Printf("lines %d, events %d, failed calls %d, skipped lines %d, unfinished calls %d\n",
			tr.Lines, len(tr.Events), tr.FailedCalls, tr.SkippedLines, tr.UnfinishedCalls)
		for _, m := range tr.Errors {
			fmt.Println("error:", m)
		}
	default:
		usage()
	}
}

func usage() {
	fmt.Fprintln(os.Stderr, "usage: fstrace-selftest workload|workload-copy <root> <marker> [seed]")
	fmt.Fprintln(os.Stderr, "       fstrace-selftest verify <tracefile> <root> <marker>")
	fmt.Fprintln(os.Stderr, "       fstrace-selftest dump <tracefile> <root> <marker>")
	os.Exit(2)
}

func fatal(format string, args ...any) {
	fmt.Fprintf(os.Stderr, format+"\n", args...)
	os.Exit(2)
}

// ---------------------------------------------------------------------------

const (
	appendFlags = os.O_APPEND | os.O_CREATE | os.O_WRONLY
	maxChunk    = 200 * 1024
)

type wl struct {
	root string
	rng  *rand.Rand
	mk   *os.File
	step int
	// Random phase state: live names with their open O_APPEND fd, and fds
	// whose file has been unlinked or replaced.
	open    map[string]*os.File
	orphans []*os.File
}

func (w *wl) p(name string) string { return filepath.Join(w.root, name) }

// do runs one step between a `B n` and an `E n ok` marker.
func (w *wl) do(f func() error) error {
	w.step++
	n := w.step // steps nest (the random phase), so remember our number
	if _, err := fmt.Fprintf(w.mk, "B %d\n", n); err != nil {
		return err
	}
	if err := f(); err != nil {
		fmt.Fprintf(w.mk, "E %d err\n", n)
		return fmt.Errorf("step %d: %w", n, err)
	}
	_, err := fmt.Fprintf(w.mk, "E %d ok\n", n)
	return err
}

func fill(r *rand.Rand, b []byte) {
	i := 0
	for ; i+8 <= len(b); i += 8 {
		v := r.Uint64()
		b[i], b[i+1], b[i+2], b[i+3] = byte(v), byte(v>>8), byte(v>>16), byte(v>>24)
		b[i+4], b[i+5], b[i+6], b[i+7] = byte(v>>32), byte(v>>40), byte(v>>48), byte(v>>56)
	}
	for ; i < len(b); i++ {
		b[i] = byte(r.Uint32())
	}
}

// chunkSize picks a size in 1 B ... 200 KB, biased towards small chunks.
func chunkSize(r *rand.Rand) int {
	switch x := r.IntN(100); {
	case x < 35:
		return 1 + r.IntN(64)
	case x < 75:
		return 65 + r.IntN(4096-64)
	case x < 97:
		return 4097 + r.IntN(maxChunk-4096)
	case x < 98:
		return 1
	default:
		return maxChunk
	}
}

func chunk(r *rand.Rand) []byte {
	b := make([]byte, chunkSize(r))
	if r.IntN(8) == 0 {
		// Every byte value, in order, starting somewhere.
		s := r.IntN(256)
		for i := range b {
			b[i] = byte(s + i)
		}
		return b
	}
	fill(r, b)
	return b
}

func allBytes() []byte {
	b := make([]byte, 512)
	for i := range b {
		b[i] = byte(i)
		if i >= 256 {
			b[i] = byte(511 - i)
		}
	}
	return b
}

func writeChunks(r *rand.Rand, f *os.File, n int) error {
	for i := 0; i < n; i++ {
		if _, err := f.Write(chunk(r)); err != nil {
			return err
		}
	}
	return nil
}

func syncDir(dir string) error {
	d, err := os.Open(dir)
	if err != nil {
		return err
	}
	defer d.Close()
	return d.Sync()
}

func workload(root, marker string, seed uint64, withCopy bool) error {
	if err := os.MkdirAll(root, 0o700); err != nil {
		return err
	}
	mk, err := os.OpenFile(marker, appendFlags, 0o600)
	if err != nil {
		return err
	}
	defer mk.Close()
	w := &wl{root: root, rng: rand.New(rand.NewPCG(seed, 0x5e1f7e57)), mk: mk, open: map[string]*os.File{}}
	r := w.rng

	a := make([]*os.File, 8) // a0..a7, O_APPEND fds
	steps := []func() error{
		// 1: create the append files and write the first chunks.
		func() error {
			for i := range a {
				f, err := os.OpenFile(w.p(fmt.Sprintf("a%d.log", i)), appendFlags, 0o600)
				if err != nil {
					return err
				}
				a[i] = f
				if i == 0 {
					if _, err := f.Write(allBytes()); err != nil {
						return err
					}
					if _, err := f.Write([]byte{0}); err != nil { // 1 byte
						return err
					}
					big := make([]byte, maxChunk) // 200 KB
					fill(r, big)
					if _, err := f.Write(big); err != nil {
						return err
					}
				}
				if err := writeChunks(r, f, 1+r.IntN(4)); err != nil {
					return err
				}
			}
			return nil
		},
		// 2: fsync some.
		func() error {
			for _, i := range []int{0, 2, 4} {
				if err := a[i].Sync(); err != nil {
					return err
				}
			}
			return nil
		},
		// 3: more appends.
		func() error {
			for _, f := range a {
				if err := writeChunks(r, f, r.IntN(3)); err != nil {
					return err
				}
			}
			return nil
		},
		// 4: rename to a new name; keep writing through the open fd.
		func() error {
			if err := os.Rename(w.p("a1.log"), w.p("b1.log")); err != nil {
				return err
			}
			if err := writeChunks(r, a[1], 2); err != nil {
				return err
			}
			return a[1].Sync()
		},
		// 5: rename onto an existing name; the replaced file's fd is still
		// open and written to (must not show up anywhere).
		func() error {
			if err := os.Rename(w.p("a2.log"), w.p("a3.log")); err != nil {
				return err
			}
			if err := writeChunks(r, a[3], 2); err != nil { // dead object
				return err
			}
			if err := a[3].Sync(); err != nil {
				return err
			}
			return writeChunks(r, a[2], 2) // now named a3.log
		},
		// 6: remove with the fd open, write to the dead fd, re-create.
		func() error {
			if err := os.Remove(w.p("a4.log")); err != nil {
				return err
			}
			if err := writeChunks(r, a[4], 2); err != nil {
				return err
			}
			if err := a[4].Close(); err != nil {
				return err
			}
			f, err := os.OpenFile(w.p("a4.log"), appendFlags, 0o600)
			if err != nil {
				return err
			}
			a[4] = f
			return writeChunks(r, f, 2)
		},
		// 7: os.Truncate: shrink one, extend another, then append to both.
		func() error {
			st, err := a[5].Stat()
			if err != nil {
				return err
			}
			if err := os.Truncate(w.p("a5.log"), st.Size()/2); err != nil {
				return err
			}
			if st, err = a[6].Stat(); err != nil {
				return err
			}
			if err := os.Truncate(w.p("a6.log"), st.Size()+int64(1+r.IntN(5000))); err != nil {
				return err
			}
			if err := writeChunks(r, a[5], 1); err != nil {
				return err
			}
			return writeChunks(r, a[6], 1)
		},
		// 8: truncating open (no O_CREAT) with sequential writes, while the
		// O_APPEND fd of the same file stays in use.
		func() error {
			f, err := os.OpenFile(w.p("a7.log"), os.O_WRONLY|os.O_TRUNC, 0)
			if err != nil {
				return err
			}
			if err := writeChunks(r, f, 2); err != nil {
				return err
			}
			if err := writeChunks(r, a[7], 1); err != nil {
				return err
			}
			if _, err := f.Write([]byte("overwrites the start of what the append fd wrote? no: continues at its own position")); err != nil {
				return err
			}
			return f.Close()
		},
		// 9: fsync the directory.
		func() error { return syncDir(root) },
		// 10: non-append file: sequential writes, WriteAt, ftruncate.
		func() error {
			f, err := os.OpenFile(w.p("n0.dat"), os.O_CREATE|os.O_EXCL|os.O_RDWR, 0o600)
			if err != nil {
				return err
			}
			total := 0
			for i := 0; i < 4; i++ {
				c := chunk(r)
				total += len(c)
				if _, err := f.Write(c); err != nil {
					return err
				}
			}
			c := chunk(r)
			if _, err := f.WriteAt(c, int64(r.IntN(total))); err != nil { // in the middle
				return err
			}
			st, err := f.Stat()
			if err != nil {
				return err
			}
			if _, err := f.WriteAt([]byte("beyond the end"), st.Size()+int64(1+r.IntN(10000))); err != nil { // gap
				return err
			}
			if _, err := f.Write([]byte("sequential again")); err != nil { // at position `total`
				return err
			}
			if err := f.Truncate(int64(total / 2)); err != nil {
				return err
			}
			if _, err := f.Write([]byte("after ftruncate: lands beyond the new end")); err != nil {
				return err
			}
			if err := f.Sync(); err != nil {
				return err
			}
			return f.Close()
		},
		// 11: calls that fail.
		func() error {
			if _, err := os.OpenFile(w.p("n0.dat"), os.O_CREATE|os.O_EXCL|os.O_WRONLY, 0o600); !errors.Is(err, os.ErrExist) {
				return fmt.Errorf("exclusive create of existing file: %v", err)
			}
			if err := os.Remove(w.p("does-not-exist")); !errors.Is(err, os.ErrNotExist) {
				return fmt.Errorf("remove of missing file: %v", err)
			}
			if err := os.Rename(w.p("does-not-exist"), w.p("a0.log")); !errors.Is(err, os.ErrNotExist) {
				return fmt.Errorf("rename of missing file: %v", err)
			}
			return nil
		},
		// 12: the lock file is ignored; a copy OUT of root is ignored too.
		func() error {
			lf, err := os.OpenFile(w.p(".lock"), os.O_CREATE|os.O_RDWR, 0o600)
			if err != nil {
				return err
			}
			if _, err := fmt.Fprintf(lf, "%d\n", os.Getpid()); err != nil {
				return err
			}
			if err := lf.Sync(); err != nil {
				return err
			}
			if err := lf.Close(); err != nil {
				return err
			}
			return copyFile(w.p("a0.log"), marker+".copy")
		},
		// 13: several goroutines, each on its own files; the main goroutine
		// keeps writing markers.
		func() error { return w.concurrent(seed) },
		// 14: random operations.
		func() error { return w.randomOps(80) },
		// 15: close everything, fsync the directory.
		func() error {
			for _, f := range a {
				if err := f.Close(); err != nil {
					return err
				}
			}
			for _, f := range w.open {
				if err := f.Close(); err != nil {
					return err
				}
			}
			for _, f := range w.orphans {
				if err := f.Close(); err != nil {
					return err
				}
			}
			return syncDir(root)
		},
	}
	if withCopy {
		steps = append(steps, func() error { return copyFile(w.p("a0.log"), w.p("copied.log")) })
	}
	for _, s := range steps {
		if err := w.do(s); err != nil {
			return err
		}
	}
	return nil
}

func copyFile(src, dst string) error {
	in, err := os.Open(src)
	if err != nil {
		return err
	}
	defer in.Close()
	out, err := os.OpenFile(dst, os.O_CREATE|os.O_TRUNC|os.O_WRONLY, 0o600)
	if err != nil {
		return err
	}
	if _, err := io.Copy(out, in); err != nil { // copy_file_range
		out.Close()
		return err
	}
	return out.Close()
}

func (w *wl) concurrent(seed uint64) error {
	const workers = 6
	var wg sync.WaitGroup
	errs := make([]error, workers)
	done := make(chan struct{})
	for g := 0; g < workers; g++ {
		wg.Add(1)
		go func(g int) {
			defer wg.Done()
			r := rand.New(rand.NewPCG(seed, uint64(1000+g)))
			errs[g] = func() error {
				lg, err := os.OpenFile(w.p(fmt.Sprintf("w%d.log", g)), appendFlags, 0o600)
				if err != nil {
					return err
				}
				defer lg.Close()
				tmp, dat := w.p(fmt.Sprintf("w%d.tmp", g)), w.p(fmt.Sprintf("w%d.dat", g))
				for round := 0; round < 5; round++ {
					f, err := os.OpenFile(tmp, os.O_CREATE|os.O_TRUNC|os.O_WRONLY, 0o600)
					if err != nil {
						return err
					}
					if err := writeChunks(r, f, 1+r.IntN(3)); err != nil {
						return err
					}
					if err := f.Sync(); err != nil {
						return err
					}
					if err := f.Close(); err != nil {
						return err
					}
					if err := os.Rename(tmp, dat); err != nil {
						return err
					}
					if err := writeChunks(r, lg, 1+r.IntN(3)); err != nil {
						return err
					}
					if err := lg.Sync(); err != nil {
						return err
					}
				}
				if g%3 == 2 {
					return os.Remove(dat)
				}
				return nil
			}()
		}(g)
	}
	go func() { wg.Wait(); close(done) }()
	for i := 0; ; i++ {
		select {
		case <-done:
			return errors.Join(errs...)
		default:
		}
		if _, err := fmt.Fprintf(w.mk, "T %d\n", i); err != nil {
			return err
		}
		time.Sleep(100 * time.Microsecond)
	}
}

func (w *wl) names() []string {
	n := make([]string, 0, len(w.open))
	for k := range w.open {
		n = append(n, k)
	}
	sort.Strings(n)
	return n
}

func (w *wl) pick() (string, *os.File) {
	n := w.names()
	if len(n) == 0 {
		return "", nil
	}
	k := n[w.rng.IntN(len(n))]
	return k, w.open[k]
}

// randomOps runs n random operations on files r*.log, each bracketed by its
// own pair of markers.
func (w *wl) randomOps(n int) error {
	r := w.rng
	next := 0
	create := func() error {
		name := fmt.Sprintf("r%d.log", next)
		next++
		f, err := os.OpenFile(w.p(name), appendFlags, 0o600)
		if err != nil {
			return err
		}
		w.open[name] = f
		return writeChunks(r, f, 1)
	}
	for i := 0; i < n; i++ {
		op := r.IntN(100)
		if len(w.open) < 3 {
			op = 99
		}
		err := w.do(func() error {
			name, f := w.pick()
			switch {
			case op < 45: // append
				return writeChunks(r, f, 1+r.IntN(2))
			case op < 55: // fsync
				return f.Sync()
			case op < 63: // rename to a fresh name
				nn := fmt.Sprintf("r%d.log", next)
				next++
				if err := os.Rename(w.p(name), w.p(nn)); err != nil {
					return err
				}
				delete(w.open, name)
				w.open[nn] = f
				return nil
			case op < 71: // rename onto another live file
				other, of := w.pick()
				if err := os.Rename(w.p(name), w.p(other)); err != nil {
					return err
				}
				if other != name {
					delete(w.open, name)
					w.orphans = append(w.orphans, of)
					w.open[other] = f
				}
				return nil
			case op < 78: // unlink, fd stays open
				if err := os.Remove(w.p(name)); err != nil {
					return err
				}
				delete(w.open, name)
				w.orphans = append(w.orphans, f)
				return nil
			case op < 84: // truncate by path
				st, err := f.Stat()
				if err != nil {
					return err
				}
				return os.Truncate(w.p(name), int64(r.IntN(int(st.Size())+100)))
			case op < 88 && len(w.orphans) > 0: // write to a dead file
				o := w.orphans[r.IntN(len(w.orphans))]
				if err := writeChunks(r, o, 1); err != nil {
					return err
				}
				return o.Sync()
			case op < 91: // close and reopen (O_APPEND, file exists)
				if err := f.Close(); err != nil {
					return err
				}
				nf, err := os.OpenFile(w.p(name), appendFlags, 0o600)
				if err != nil {
					return err
				}
				w.open[name] = nf
				return writeChunks(r, nf, 1)
			case op < 93:
				return syncDir(w.root)
			default:
				return create()
			}
		})
		if err != nil {
			return err
		}
	}
	return nil
}
