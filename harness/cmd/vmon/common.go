package main

import (
	"encoding/json"
	"fmt"
	"os"
	"path/filepath"
	"sort"
	"strings"
	"sync"
	"time"
)

// ---------------------------------------------------------------------------------------
// run configuration

type RunCfg struct {
	Engine   string
	Property string
	Tier     string
	Seed     int64
	Evidence string
	Findings string
	Replays  string
	Replay   string // replay file (optional)
	Workers  int
	Scratch  string // scratch root (under /dev/shm)
	Scale    float64
	Self     string // path of this binary
	Shard    int    // this process runs cases with index % Shards == Shard (concmon children)
	Shards   int
}

// ---------------------------------------------------------------------------------------
// violations, known findings, reporter

type Violation struct {
	Property string         `json:"property"`
	Sig      string         `json:"signature"`
	What     string         `json:"what"`
	Detail   any            `json:"detail,omitempty"`
	Replay   map[string]any `json:"replay,omitempty"`
}

type KnownEntry struct {
	Status   string `json:"status"` // "known" | "fixed"
	Property string `json:"property"`
	ID       string `json:"id"`
	Sig      string `json:"signature"`
	What     string `json:"what"`
	Commit   string `json:"commit,omitempty"`
}

type Reporter struct {
	mu       sync.Mutex
	cfg      *RunCfg
	known    map[string]KnownEntry // sig -> entry (status known only)
	viol     map[string]*Violation // by sig, first instance
	violN    map[string]int
	knownHit map[string]int
	order    []string
	inconcl  map[string]int
}

func NewReporter(cfg *RunCfg) *Reporter {
	r := &Reporter{cfg: cfg, known: map[string]KnownEntry{}, viol: map[string]*Violation{}, violN: map[string]int{}, knownHit: map[string]int{}, inconcl: map[string]int{}}
	if cfg.Findings != "" {
		if b, err := os.ReadFile(cfg.Findings); err == nil {
			var f struct {
				Findings []KnownEntry `json:"findings"`
			}
			if err := json.Unmarshal(b, &f); err != nil {
				fmt.Fprintf(os.Stderr, "cannot parse %s: %v\n", cfg.Findings, err)
				os.Exit(2)
			}
			for _, e := range f.Findings {
				if e.Status == "known" && e.Property == cfg.Property {
					r.known[e.Sig] = e
				}
			}
		}
	}
	return r
}

// Report records a violation (or a known finding when its signature is listed).
func (r *Reporter) Report(v Violation) {
	r.mu.Lock()
	defer r.mu.Unlock()
	if v.Property == "" {
		v.Property = r.cfg.Property
	}
	if _, ok := r.known[v.Sig]; ok {
		r.knownHit[v.Sig]++
		return
	}
	r.violN[v.Sig]++
	if _, ok := r.viol[v.Sig]; !ok {
		vv := v
		r.viol[v.Sig] = &vv
		r.order = append(r.order, v.Sig)
	}
}

func (r *Reporter) Inconclusive(what string) {
	r.mu.Lock()
	defer r.mu.Unlock()
	r.inconcl[what]++
}

func (r *Reporter) NumViolations() int {
	r.mu.Lock()
	defer r.mu.Unlock()
	return len(r.viol)
}

func (r *Reporter) Seen(sig string) bool {
	r.mu.Lock()
	defer r.mu.Unlock()
	_, ok := r.viol[sig]
	return ok || r.knownHit[sig] > 0
}

// Finish prints KNOWN-FINDING / VIOLATION lines, writes replay files, returns exit code (0/1).
func (r *Reporter) Finish(ev *Evidence) int {
	r.mu.Lock()
	defer r.mu.Unlock()
	var ksigs []string
	for s := range r.knownHit {
		ksigs = append(ksigs, s)
	}
	sort.Strings(ksigs)
	kf := map[string]int{}
	for _, s := range ksigs {
		e := r.known[s]
		fmt.Printf("KNOWN-FINDING: property=%s %s [%s] (seen %d times; signature %s)\n", e.Property, e.What, e.ID, r.knownHit[s], s)
		kf[e.ID] = r.knownHit[s]
	}
	// every listed known finding gets its line, reproduced in this run or not
	var quiet []string
	for s := range r.known {
		if r.knownHit[s] == 0 {
			quiet = append(quiet, s)
		}
	}
	sort.Strings(quiet)
	for _, s := range quiet {
		e := r.known[s]
		fmt.Printf("KNOWN-FINDING: property=%s %s [%s] (listed; not reproduced in this run; signature %s)\n", e.Property, e.What, e.ID, s)
		kf[e.ID] = 0
	}
	ev.Coverage["known_findings_seen"] = kf
	if len(r.inconcl) > 0 {
		ev.Coverage["inconclusive"] = r.inconcl
	}
	code := 0
	os.MkdirAll(r.cfg.Replays, 0o755)
	// witnesses of earlier runs with the same property/tier/seed are stale now
	if old, _ := filepath.Glob(filepath.Join(r.cfg.Replays, fmt.Sprintf("%s-%s-seed%d-*.json", r.cfg.Property, r.cfg.Tier, r.cfg.Seed))); len(old) > 0 {
		for _, f := range old {
			os.Remove(f)
		}
	}
	for i, s := range r.order {
		v := r.viol[s]
		name := fmt.Sprintf("%s-%s-seed%d-%d.json", r.cfg.Property, r.cfg.Tier, r.cfg.Seed, i)
		path := filepath.Join(r.cfg.Replays, name)
		out := map[string]any{"violation": v, "count": r.violN[s], "engine": r.cfg.Engine, "tier": r.cfg.Tier, "seed": r.cfg.Seed}
		b, _ := json.MarshalIndent(out, "", " ")
		_ = os.WriteFile(path, b, 0o644)
		fmt.Printf("VIOLATION property=%s replay=%s\n", v.Property, path)
		fmt.Printf("  what: %s\n  signature: %s (x%d)\n", v.What, s, r.violN[s])
		code = 1
	}
	ev.Violations = len(r.order)
	return code
}

// ---------------------------------------------------------------------------------------
// evidence

type Evidence struct {
	PropertyID  string         `json:"property_id"`
	Tier        string         `json:"tier"`
	Seed        int64          `json:"seed"`
	Level       string         `json:"level"`
	Coverage    map[string]any `json:"coverage"`
	Assumptions []string       `json:"assumptions,omitempty"`
	WallS       float64        `json:"wall_s"`
	Violations  int            `json:"violations"`
}

func (e *Evidence) Write(path string, start time.Time) {
	e.WallS = float64(time.Since(start).Milliseconds()) / 1000
	b, _ := json.MarshalIndent(e, "", " ")
	os.MkdirAll(filepath.Dir(path), 0o755)
	if err := os.WriteFile(path, b, 0o644); err != nil {
		fmt.Fprintf(os.Stderr, "cannot write evidence: %v\n", err)
	}
}

// Cov collects coverage counters in a thread-safe way.
type Cov struct {
	mu      sync.Mutex
	counts  map[string]int64
	sets    map[string]map[string]struct{}
	samples []any
	maxSamp int
	sampSig map[string]struct{}
}

func NewCov() *Cov {
	return &Cov{counts: map[string]int64{}, sets: map[string]map[string]struct{}{}, maxSamp: 6, sampSig: map[string]struct{}{}}
}

func (c *Cov) Add(key string, n int64) {
	c.mu.Lock()
	c.counts[key] += n
	c.mu.Unlock()
}

func (c *Cov) Get(key string) int64 {
	c.mu.Lock()
	defer c.mu.Unlock()
	return c.counts[key]
}

// Distinct adds sig to the named set and reports whether it was new.
func (c *Cov) Distinct(set, sig string) bool {
	c.mu.Lock()
	defer c.mu.Unlock()
	s := c.sets[set]
	if s == nil {
		s = map[string]struct{}{}
		c.sets[set] = s
	}
	if _, ok := s[sig]; ok {
		return false
	}
	s[sig] = struct{}{}
	return true
}

func (c *Cov) SetSize(set string) int {
	c.mu.Lock()
	defer c.mu.Unlock()
	return len(c.sets[set])
}

func (c *Cov) SetMembers(set string, max int) []string {
	c.mu.Lock()
	defer c.mu.Unlock()
	var out []string
	for s := range c.sets[set] {
		out = append(out, s)
	}
	sort.Strings(out)
	if max > 0 && len(out) > max {
		out = out[:max]
	}
	return out
}

// Sample keeps up to maxSamp samples, one per class.
func (c *Cov) Sample(class string, x any) {
	c.mu.Lock()
	defer c.mu.Unlock()
	if _, ok := c.sampSig[class]; ok || len(c.samples) >= c.maxSamp {
		return
	}
	c.sampSig[class] = struct{}{}
	c.samples = append(c.samples, x)
}

func (c *Cov) Samples() []any {
	c.mu.Lock()
	defer c.mu.Unlock()
	return append([]any(nil), c.samples...)
}

func (c *Cov) Counts(prefix string) map[string]int64 {
	c.mu.Lock()
	defer c.mu.Unlock()
	out := map[string]int64{}
	for k, v := range c.counts {
		if strings.HasPrefix(k, prefix) {
			out[strings.TrimPrefix(k, prefix)] = v
		}
	}
	return out
}

// ---------------------------------------------------------------------------------------
// PRNG (splitmix64): deterministic, seedable, private per user

type Rand struct{ s uint64 }

func NewRand(seed ...int64) *Rand {
	var s uint64 = 0x9E3779B97F4A7C15
	for _, x := range seed {
		s = (s ^ uint64(x)) * 0xBF58476D1CE4E5B9
		s ^= s >> 29
		s += 0x9E3779B97F4A7C15
	}
	return &Rand{s}
}

func (r *Rand) U64() uint64 {
	r.s += 0x9E3779B97F4A7C15
	z := r.s
	z = (z ^ (z >> 30)) * 0xBF58476D1CE4E5B9
	z = (z ^ (z >> 27)) * 0x94D049BB133111EB
	return z ^ (z >> 31)
}

func (r *Rand) Intn(n int) int {
	if n <= 0 {
		return 0
	}
	return int(r.U64() % uint64(n))
}

func (r *Rand) Int63n(n int64) int64 {
	if n <= 0 {
		return 0
	}
	return int64(r.U64() % uint64(n))
}

func (r *Rand) Bool() bool            { return r.U64()&1 == 1 }
func (r *Rand) Chance(p float64) bool { return float64(r.U64()>>11)/float64(1<<53) < p }

func (r *Rand) Bytes(n int) []byte {
	b := make([]byte, n)
	for i := range b {
		b[i] = byte(r.U64())
	}
	return b
}

// Weighted picks an index according to weights.
func (r *Rand) Weighted(w []int) int {
	t := 0
	for _, x := range w {
		t += x
	}
	if t == 0 {
		return 0
	}
	k := r.Intn(t)
	for i, x := range w {
		if k < x {
			return i
		}
		k -= x
	}
	return len(w) - 1
}

func pick[T any](r *Rand, xs []T) T { return xs[r.Intn(len(xs))] }

// ---------------------------------------------------------------------------------------
// misc

func scratchRoot() string {
	for _, d := range []string{"/dev/shm", os.Getenv("TMPDIR"), os.TempDir()} {
		if d == "" {
			continue
		}
		if st, err := os.Stat(d); err == nil && st.IsDir() {
			if p, err := os.MkdirTemp(d, "vmon-"); err == nil {
				return p
			}
		}
	}
	panic("no scratch directory")
}

func must(err error) {
	if err != nil {
		panic(err)
	}
}

func jsonStr(x any) string {
	b, _ := json.Marshal(x)
	return string(b)
}

// parallel runs fn(i) for i in [0,n) on w workers.
func parallel(n, w int, fn func(i int)) {
	if w < 1 {
		w = 1
	}
	var wg sync.WaitGroup
	ch := make(chan int, w)
	for k := 0; k < w; k++ {
		wg.Add(1)
		go func() {
			defer wg.Done()
			for i := range ch {
				fn(i)
			}
		}()
	}
	for i := 0; i < n; i++ {
		ch <- i
	}
	close(ch)
	wg.Wait()
}

// ---------------------------------------------------------------------------------------
// shard results: children of a sharded engine send their coverage and findings to the parent

type shardResult struct {
	Counts   map[string]int64    `json:"counts"`
	Sets     map[string][]string `json:"sets"`
	Samples  []any               `json:"samples"`
	Viol     []Violation         `json:"violations"`
	ViolN    map[string]int      `json:"violation_counts"`
	KnownHit map[string]int      `json:"known_hits"`
	Inconcl  map[string]int      `json:"inconclusive"`
}

func dumpShard(rep *Reporter, cov *Cov) shardResult {
	r := shardResult{Counts: map[string]int64{}, Sets: map[string][]string{}, ViolN: map[string]int{}, KnownHit: map[string]int{}, Inconcl: map[string]int{}}
	cov.mu.Lock()
	for k, v := range cov.counts {
		r.Counts[k] = v
	}
	for k, set := range cov.sets {
		for m := range set {
			r.Sets[k] = append(r.Sets[k], m)
		}
	}
	r.Samples = cov.samples
	cov.mu.Unlock()
	rep.mu.Lock()
	for _, s := range rep.order {
		r.Viol = append(r.Viol, *rep.viol[s])
		r.ViolN[s] = rep.violN[s]
	}
	for k, v := range rep.knownHit {
		r.KnownHit[k] = v
	}
	for k, v := range rep.inconcl {
		r.Inconcl[k] = v
	}
	rep.mu.Unlock()
	return r
}

func mergeShard(rep *Reporter, cov *Cov, r shardResult) {
	for k, v := range r.Counts {
		cov.Add(k, v)
	}
	for k, ms := range r.Sets {
		for _, m := range ms {
			cov.Distinct(k, m)
		}
	}
	for i, x := range r.Samples {
		cov.Sample(fmt.Sprintf("shard-sample-%d-%p", i, &r), x)
	}
	for _, v := range r.Viol {
		n := r.ViolN[v.Sig]
		for i := 0; i < n; i++ {
			rep.Report(v)
		}
	}
	rep.mu.Lock()
	for k, v := range r.KnownHit {
		rep.knownHit[k] += v
	}
	for k, v := range r.Inconcl {
		rep.inconcl[k] += v
	}
	rep.mu.Unlock()
}
