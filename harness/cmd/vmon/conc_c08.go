package main

import (
	"context"
	"encoding/json"
	"fmt"
	"os"
	"os/exec"
	"path/filepath"
	"runtime"
	"sort"
	"strconv"
	"strings"
	"sync/atomic"
	"time"

	"github.com/klev-dev/klevdb"

	"verifharness/ref"
)

// C08: controlled pause-window scenarios and perturbed free-running histories, under -race.

func init() {
	engines["concmon"] = func(cfg *RunCfg, rep *Reporter, cov *Cov, ev *Evidence) {
		if cfg.Property == "C18" {
			runC18(cfg, rep, cov, ev)
			return
		}
		runC08(cfg, rep, cov, ev)
	}
	props["C08"] = propInfo{Engine: "concmon", Level: "exploration",
		Rule:   "controlled phase: a primary call is held inside a pause window (vhook point) while up to two other complete calls run, then released, followed by sequential epilogue calls; perturb phase: seeded free-running mixes of 3-8 goroutines with random yields/sleeps at the hook points. Every history: stream monitors (conservation, content, gaps, deletes, errors), porcupine linearizability against the sequential model, sequential final observation; Go race detector over everything. distinct_nontrivial = distinct (window, primary, secondary sequence) with at least one secondary completing inside the window + distinct overlapping (op kind, op kind) pairs of the perturb phase",
		Assume: []string{"the Go race detector sees a race only if the racing accesses happen in this run without an intervening happens-before edge; perturb mode therefore shares no synchronisation between workload goroutines", "linearizability is decided by porcupine on recorded call/return intervals that are only ever wider than the real ones", "Stat is excluded from linearizability as the property states"}}
}

// ---------------------------------------------------------------------------------------
// a concurrent run on one log

type concRun struct {
	dir   string
	l     klevdb.Log
	opts  OpenOpts
	hist  *concHist
	seq   int
	histN int
	rep   *Reporter
	cov   *Cov
	cfg   *RunCfg

	bigBatches bool
}

func newConcRun(cfg *RunCfg, rep *Reporter, cov *Cov, id string, opts OpenOpts) *concRun {
	cr := &concRun{dir: filepath.Join(cfg.Scratch, id), opts: opts, rep: rep, cov: cov, cfg: cfg}
	cr.hist = &concHist{id: id, cfg: opts.Cfg()}
	opts.Create = true
	l, err := kOpen(cr.dir, opts)
	if err != nil {
		return nil
	}
	cr.l = l
	return cr
}

// close closes the log; after a deadlock inside klevdb Close itself never returns (it needs the
// locks the stuck calls hold), so it is given ten seconds and then abandoned with its goroutine.
func (cr *concRun) close() {
	if cr.l != nil {
		done := make(chan struct{})
		go func() {
			kClose(cr.l)
			close(done)
		}()
		select {
		case <-done:
		case <-time.After(10 * time.Second):
			cr.cov.Add("close_abandoned_after_deadlock", 1)
		}
	}
	os.RemoveAll(cr.dir)
}

// seqOp runs one op sequentially (preset / epilogue) on client id -1 and records it.
func (cr *concRun) seqOp(o *cOp) *cOp {
	o.Client = 99
	execOp(cr.l, o)
	cr.hist.ops = append(cr.hist.ops, o)
	return o
}

func (cr *concRun) pubOp(client, n int, big bool) *cOp {
	o := &cOp{Kind: "publish", N: n, Big: big, Client: client}
	keys := [][]byte{[]byte("a"), []byte("b"), nil}
	for i := 0; i < n; i++ {
		cr.seq++
		v := []byte(fmt.Sprintf("%s.%d.%d|", cr.hist.id, client, cr.seq))
		if big {
			v = append(v, make([]byte, 200)...)
		}
		o.Pub = append(o.Pub, ref.Msg{Key: keys[cr.seq%3], Value: v})
	}
	return o
}

// finish runs the oracles over the recorded history and the sequential final observation.
func (cr *concRun) finish(kind string, replay map[string]any, linTimeout time.Duration) bool {
	h := cr.hist
	report := func(f *Fail) {
		var hist []string
		for _, o := range h.sorted() {
			hist = append(hist, o.String())
		}
		if len(hist) > 400 {
			hist = hist[:400]
		}
		replay["history"] = hist
		var ops []*cOp
		for _, o := range h.sorted() {
			o.PubT, o.OutT = nil, nil
			for _, m := range o.Pub {
				o.PubT = append(o.PubT, m.T)
			}
			for _, m := range o.Out {
				o.OutT = append(o.OutT, m.T)
			}
			ops = append(ops, o)
		}
		if len(ops) <= 400 {
			replay["ops"] = ops
		}
		replay["dir_listing"] = dirListing(cr.dir)
		cr.rep.Report(Violation{Property: "C08", Sig: "concmon|" + f.Sig, What: f.What, Replay: replay})
	}
	cr.cov.Add("evaluations", 1)
	if f := h.streamMonitors(); f != nil {
		report(f)
		return false
	}
	// sequential final observation against published minus reported-deleted
	m := h.expectedFinal()
	var f *Fail
	got, end, sf := scanLog(cr.l, 7, len(m.Live)+int(m.Next)+32)
	switch {
	case sf != nil:
		f = sf
	default:
		if f = compareSeq(got, m.Live); f == nil && end != m.Next {
			f = failf("scan:end", "final scan ended at %d, expected NextOffset %d", end, m.Next)
		}
	}
	if f == nil {
		for _, mx := range []int64{1, 3} {
			if f = consumeIterate(cr.l, m, mx); f != nil {
				break
			}
		}
	}
	for off := int64(-2); off <= m.Next+1 && f == nil; off++ {
		if f = getCell(cr.l, m, off); f == nil {
			f = consumeCell(cr.l, m, off, 4)
		}
	}
	if f == nil && m.Cfg.Keys {
		for _, k := range [][]byte{[]byte("a"), []byte("b"), nil, []byte("zz")} {
			if f = getByKeyCell(cr.l, m, k); f != nil {
				break
			}
			if f = consumeByKeyIterate(cr.l, m, k, 2); f != nil {
				break
			}
		}
	}
	if f == nil && m.Cfg.Times && h.timesMonotone() {
		for _, t := range timeSweep(m, 40) {
			if f = getByTimeCell(cr.l, m, t); f != nil {
				break
			}
		}
	}
	if f == nil {
		f = statCell(cr.l, m, cr.dir)
	}
	if f != nil {
		f.Sig = "final-state:" + f.Sig
		f.What = "after the concurrent calls finished, a sequential observation of the log disagrees with what the calls reported: " + f.What
		report(f)
		return false
	}
	// linearizability
	res, why := h.linearizable(linTimeout)
	cr.cov.Add("porcupine."+res, 1)
	switch res {
	case "illegal":
		report(failf("not-linearizable:"+kind, "no sequential order of the recorded calls consistent with real time explains their results: %s", why))
		return false
	case "unknown":
		cr.rep.Inconclusive("porcupine timeout")
	}
	return true
}

// ---------------------------------------------------------------------------------------
// perturb phase

type perturbClient struct {
	id    int
	role  string
	rng   *Rand
	ops   []*cOp
	hc    *hookClient
	goid  int64
	nOps  int
	known int64 // largest next offset this client has observed
	seen  []int64
}

func (cr *concRun) runPerturb(idx int, seed int64, nClients, nOps int) {
	r := NewRand(seed, 808, int64(idx))
	// preset: a few segments so that deletes in reader segments are possible from the start
	for i := 0; i < 4+r.Intn(6); i++ {
		cr.seqOp(cr.pubOp(99, 1+r.Intn(3), false))
	}
	roles := []string{"publisher", "consumer", "deleter", "getter", "publisher", "consumer", "misc", "deleter"}
	clients := make([]*perturbClient, nClients)
	for i := range clients {
		clients[i] = &perturbClient{id: i, role: roles[(i+idx)%len(roles)], rng: NewRand(seed, 809, int64(idx), int64(i)), nOps: nOps}
		clients[i].hc = &hookClient{id: i, rng: NewRand(seed, 810, int64(idx), int64(i)), points: map[string]int{}, hits: map[string]int{}}
		clients[i].known = cr.hist.opsNext()
	}
	hm := &hookMode{perturb: true, clients: map[int64]*hookClient{}}
	ready := make(chan *perturbClient, nClients)
	start := make(chan struct{})
	done := make(chan int, nClients)
	for _, c := range clients {
		c := c
		go func() {
			c.goid = goid()
			ready <- c
			<-start
			cr.clientLoop(c)
			done <- c.id
		}()
	}
	for range clients {
		c := <-ready
		hm.clients[c.goid] = c.hc
	}
	installHook(hm)
	close(start)
	finished := 0
	watchdog := time.After(60 * time.Second)
	deadlocked := false
	for finished < nClients && !deadlocked {
		select {
		case <-done:
			finished++
		case <-watchdog:
			deadlocked = true
		}
	}
	installHook(nil)
	replay := map[string]any{"phase": "perturb", "history_index": idx, "seed": seed, "clients": nClients, "opts": cr.opts}
	if deadlocked {
		cr.cov.Add("perturb.watchdog_fired", 1)
		cr.judgeStuck(clients, replay)
		return
	}
	for _, c := range clients {
		cr.hist.ops = append(cr.hist.ops, c.ops...)
		for p, n := range c.hc.points {
			cr.cov.Add("points."+p, int64(n))
		}
		cr.cov.Add("perturb.sleeps", int64(c.hc.slept))
	}
	// overlapping op-kind pairs actually observed
	ops := cr.hist.sorted()
	for i, a := range ops {
		for j := i + 1; j < len(ops) && ops[j].Call < a.Ret; j++ {
			b := ops[j]
			if a.Client == b.Client || a.Client == 99 || b.Client == 99 {
				continue
			}
			ka, kb := a.Kind, b.Kind
			if ka > kb {
				ka, kb = kb, ka
			}
			cr.cov.Distinct("c08", "overlap:"+ka+"+"+kb)
			cr.cov.Add("overlaps", 1)
		}
	}
	cr.cov.Add("perturb.histories", 1)
	cr.cov.Add("perturb.calls", int64(len(ops)))
	if idx%50 == 0 {
		var sample []string
		for i, o := range ops {
			if i >= 25 {
				break
			}
			sample = append(sample, o.String())
		}
		cr.cov.Sample("perturb", map[string]any{"phase": "perturb", "history": idx, "clients": nClients, "first_calls": sample})
	}
	cr.finish("perturb", replay, 20*time.Second)
}

func (h *concHist) opsNext() int64 {
	var nx int64
	for _, o := range h.ops {
		if o.Kind == "publish" && o.Next > nx {
			nx = o.Next
		}
	}
	return nx
}

func (cr *concRun) clientLoop(c *perturbClient) {
	r := c.rng
	cursor := klevdb.OffsetOldest
	keys := [][]byte{[]byte("a"), []byte("b"), nil}
	do := func(o *cOp) *cOp {
		o.Client = c.id
		execOp(cr.l, o)
		c.ops = append(c.ops, o)
		if (o.Kind == "publish" || o.Kind == "next" || o.Kind == "sync" || o.Kind == "consume") && o.Err == "" && o.Next > c.known {
			c.known = o.Next
		}
		for _, m := range o.Out {
			if o.Kind == "consume" || o.Kind == "get" {
				c.seen = append(c.seen, m.Offset)
			}
		}
		return o
	}
	consume := func() {
		o := do(&cOp{Kind: "consume", Off: cursor, Max: int64(1 + r.Intn(5))})
		if o.Err == "" {
			if o.Next == cursor || r.Chance(0.1) {
				cursor = klevdb.OffsetOldest
				if r.Chance(0.4) && c.known > 0 {
					cursor = r.Int63n(c.known + 1)
				}
			} else {
				cursor = o.Next
			}
		} else {
			cursor = klevdb.OffsetOldest
		}
	}
	pubSeq := 0
	pub := func() {
		n := 1 + r.Intn(3)
		if r.Chance(0.08) {
			n = 0
		} else if cr.opts.Typed && cr.bigBatches && pubSeq < 1000 && r.Chance(0.2) {
			// through the typed wrapper: a batch far larger than any internal chunk size must still be
			// one publish (one consecutive offset range, visible all at once)
			n = 1030 + r.Intn(40)
		}
		o := &cOp{Kind: "publish", N: n}
		for i := 0; i < n; i++ {
			pubSeq++
			v := []byte(fmt.Sprintf("%s.c%d.%d|", cr.hist.id, c.id, pubSeq))
			if r.Chance(0.1) {
				v = append(v, make([]byte, 150+r.Intn(4000))...)
			}
			o.Pub = append(o.Pub, ref.Msg{Key: keys[r.Intn(3)], Value: v})
		}
		do(o)
	}
	del := func() {
		if len(c.seen) == 0 {
			consume()
			return
		}
		var offs []int64
		switch r.Intn(4) {
		case 0: // the oldest ones seen
			s := append([]int64(nil), c.seen...)
			sort.Slice(s, func(i, j int) bool { return s[i] < s[j] })
			offs = s[:minInt(len(s), 1+r.Intn(3))]
		case 1: // the newest ones seen (often the tail of the head)
			s := append([]int64(nil), c.seen...)
			sort.Slice(s, func(i, j int) bool { return s[i] > s[j] })
			offs = s[:minInt(len(s), 1+r.Intn(2))]
		default:
			for i := 0; i < 1+r.Intn(3); i++ {
				offs = append(offs, c.seen[r.Intn(len(c.seen))])
			}
		}
		do(&cOp{Kind: "delete", Offsets: offs})
	}
	get := func() {
		switch r.Intn(5) {
		case 0:
			do(&cOp{Kind: "getbykey", Key: keys[r.Intn(3)]})
		case 1:
			if cr.opts.TimeIdx {
				do(&cOp{Kind: "getbytime", T: time.Now().UnixMicro() - int64(r.Intn(20000))})
				return
			}
			fallthrough
		case 2:
			do(&cOp{Kind: "consumebykey", Key: keys[r.Intn(3)], Off: klevdb.OffsetOldest, Max: int64(1 + r.Intn(4))})
		default:
			off := int64(klevdb.OffsetNewest - int64(r.Intn(2)))
			if c.known > 0 && r.Chance(0.8) {
				off = r.Int63n(c.known)
			}
			do(&cOp{Kind: "get", Off: off})
		}
	}
	misc := func() {
		switch r.Intn(5) {
		case 0:
			do(&cOp{Kind: "next"})
		case 1:
			do(&cOp{Kind: "sync"})
		case 2:
			do(&cOp{Kind: "stat"})
		default:
			do(&cOp{Kind: "gc"})
		}
	}
	for i := 0; i < c.nOps; i++ {
		x := r.Intn(100)
		switch c.role {
		case "publisher":
			switch {
			case x < 75:
				pub()
			case x < 85:
				misc()
			default:
				consume()
			}
		case "consumer":
			switch {
			case x < 80:
				consume()
			case x < 90:
				get()
			default:
				misc()
			}
		case "deleter":
			switch {
			case x < 45:
				consume()
			case x < 90:
				del()
			default:
				misc()
			}
		case "getter":
			switch {
			case x < 70:
				get()
			case x < 85:
				consume()
			default:
				misc()
			}
		default:
			switch {
			case x < 60:
				misc()
			case x < 80:
				consume()
			default:
				pub()
			}
		}
	}
}

// judgeStuck: the watchdog fired. A violation only if every unfinished client sits in a
// lock/channel wait inside klevdb on three consecutive snapshots; otherwise inconclusive.
func (cr *concRun) judgeStuck(clients []*perturbClient, replay map[string]any) {
	stuck := true
	var desc []string
	for snap := 0; snap < 3 && stuck; snap++ {
		ws := waitStates()
		desc = nil
		for _, c := range clients {
			st, ok := ws[c.goid]
			if !ok {
				continue // finished
			}
			desc = append(desc, fmt.Sprintf("client %d: [%s] %s", c.id, st[0], st[1]))
			if !isBlockedState(st[0]) || !strings.Contains(st[1], "klevdb") {
				stuck = false
			}
		}
		time.Sleep(200 * time.Millisecond)
	}
	if stuck && len(desc) > 0 {
		replay["goroutines"] = desc
		cr.rep.Report(Violation{Property: cr.cfg.Property, Sig: "concmon|deadlock", What: "calls never return: every unfinished client is blocked inside klevdb: " + strings.Join(desc, "; "), Replay: replay})
		return
	}
	cr.rep.Inconclusive("watchdog fired with runnable goroutines")
}

// ---------------------------------------------------------------------------------------
// controlled phase

type ctrlCall struct {
	name string
	mk   func(cr *concRun, st *ctrlState) *cOp
}

type ctrlState struct {
	readerFirst, readerMid, readerLast int64 // offsets in the first reader segment
	reader2First                       int64
	headFirst, headMid, headLast       int64
	next                               int64
}

type ctrlPrimary struct {
	name    string
	call    ctrlCall
	windows []string
	nth     int
	preset  string // below | above | gc
}

var bigVal = 230

func ctrlAlphabet() []ctrlCall {
	off := func(kind string, f func(st *ctrlState) int64) func(cr *concRun, st *ctrlState) *cOp {
		return func(cr *concRun, st *ctrlState) *cOp { return &cOp{Kind: kind, Off: f(st), Max: 40} }
	}
	del := func(f func(st *ctrlState) []int64) func(cr *concRun, st *ctrlState) *cOp {
		return func(cr *concRun, st *ctrlState) *cOp { return &cOp{Kind: "delete", Offsets: f(st)} }
	}
	return []ctrlCall{
		{"Publish(1)", func(cr *concRun, st *ctrlState) *cOp { return cr.pubOp(0, 1, false) }},
		{"Publish(3)", func(cr *concRun, st *ctrlState) *cOp { return cr.pubOp(0, 3, false) }},
		{"Publish(big)", func(cr *concRun, st *ctrlState) *cOp { return cr.pubOp(0, 1, true) }},
		{"Publish(empty)", func(cr *concRun, st *ctrlState) *cOp { return cr.pubOp(0, 0, false) }},
		{"Consume(oldest)", off("consume", func(st *ctrlState) int64 { return klevdb.OffsetOldest })},
		{"Consume(reader)", off("consume", func(st *ctrlState) int64 { return st.readerMid })},
		{"Consume(reader-end)", off("consume", func(st *ctrlState) int64 { return st.readerLast })},
		{"Consume(head)", off("consume", func(st *ctrlState) int64 { return st.headFirst })},
		{"Consume(next)", off("consume", func(st *ctrlState) int64 { return st.next })},
		{"ConsumeByKey(a)", func(cr *concRun, st *ctrlState) *cOp {
			return &cOp{Kind: "consumebykey", Key: []byte("a"), Off: klevdb.OffsetOldest, Max: 40}
		}},
		{"ConsumeByKey(a,next)", func(cr *concRun, st *ctrlState) *cOp {
			return &cOp{Kind: "consumebykey", Key: []byte("a"), Off: st.next, Max: 40}
		}},
		{"ConsumeByKey(zz,head)", func(cr *concRun, st *ctrlState) *cOp {
			return &cOp{Kind: "consumebykey", Key: []byte("zz"), Off: st.headFirst, Max: 40}
		}},
		{"Publish(key a)", func(cr *concRun, st *ctrlState) *cOp {
			o := cr.pubOp(0, 1, false)
			o.Pub[0].Key = []byte("a")
			return o
		}},
		{"Publish(key zz)", func(cr *concRun, st *ctrlState) *cOp {
			o := cr.pubOp(0, 2, false)
			o.Pub[0].Key = []byte("zz")
			o.Pub[1].Key = []byte("zz")
			return o
		}},
		{"Get(reader)", off("get", func(st *ctrlState) int64 { return st.readerMid })},
		{"Get(head)", off("get", func(st *ctrlState) int64 { return st.headMid })},
		{"Get(newest)", off("get", func(st *ctrlState) int64 { return klevdb.OffsetNewest })},
		{"GetByKey(b)", func(cr *concRun, st *ctrlState) *cOp { return &cOp{Kind: "getbykey", Key: []byte("b")} }},
		{"GetByKey(old)", func(cr *concRun, st *ctrlState) *cOp { return &cOp{Kind: "getbykey", Key: []byte("old")} }},
		{"ConsumeByKey(old)", func(cr *concRun, st *ctrlState) *cOp {
			return &cOp{Kind: "consumebykey", Key: []byte("old"), Off: klevdb.OffsetOldest, Max: 40}
		}},
		{"GetByTime(first)", func(cr *concRun, st *ctrlState) *cOp {
			return &cOp{Kind: "getbytime", T: 1}
		}},
		{"GetByTime(now)", func(cr *concRun, st *ctrlState) *cOp {
			return &cOp{Kind: "getbytime", T: time.Now().UnixMicro() - 500}
		}},
		{"Delete(head-mid)", del(func(st *ctrlState) []int64 { return []int64{st.headMid} })},
		{"Delete(head-tail)", del(func(st *ctrlState) []int64 { return []int64{st.headLast} })},
		{"Delete(head-first)", del(func(st *ctrlState) []int64 { return []int64{st.headFirst} })},
		{"Delete(head-all)", del(func(st *ctrlState) []int64 {
			var o []int64
			for x := st.headFirst; x <= st.headLast; x++ {
				o = append(o, x)
			}
			return o
		})},
		{"Delete(reader-first)", del(func(st *ctrlState) []int64 { return []int64{st.readerFirst} })},
		{"Delete(reader-mid)", del(func(st *ctrlState) []int64 { return []int64{st.readerMid} })},
		{"Delete(reader-all)", del(func(st *ctrlState) []int64 {
			var o []int64
			for x := st.readerFirst; x <= st.readerLast; x++ {
				o = append(o, x)
			}
			return o
		})},
		{"Delete(reader2-first)", del(func(st *ctrlState) []int64 { return []int64{st.reader2First} })},
		{"Sync", func(cr *concRun, st *ctrlState) *cOp { return &cOp{Kind: "sync"} }},
		{"NextOffset", func(cr *concRun, st *ctrlState) *cOp { return &cOp{Kind: "next"} }},
		{"Stat", func(cr *concRun, st *ctrlState) *cOp { return &cOp{Kind: "stat"} }},
		{"GC", func(cr *concRun, st *ctrlState) *cOp { return &cOp{Kind: "gc"} }},
	}
}

func findCall(alpha []ctrlCall, name string) ctrlCall {
	for _, c := range alpha {
		if c.name == name {
			return c
		}
	}
	panic("no call " + name)
}

func ctrlPrimaries(alpha []ctrlCall) []ctrlPrimary {
	p := func(name string, preset string, nth int, windows ...string) ctrlPrimary {
		return ctrlPrimary{name: name, call: findCall(alpha, name), windows: windows, nth: nth, preset: preset}
	}
	return []ctrlPrimary{
		p("Publish(1)", "above", 1, "publish.rollover.afterSync", "publish.rollover.beforeSwap", "publish.rollover.afterSwap", "writer.publish.afterRecord", "writer.publish.beforeIndexAppend", "publish.beforeAutoSync"),
		p("Publish(empty)", "above", 1, "publish.rollover.beforeSwap", "publish.rollover.afterSwap"),
		p("Publish(3)", "below", 2, "writer.publish.afterRecord"),
		p("Publish(3)", "below", 1, "writer.publish.beforeIndexAppend", "publish.beforeAutoSync"),
		p("Delete(head-mid)", "below", 1, "delete.afterFind", "delete.afterSyncUnlock", "delete.afterRewrite", "delete.head.beforeSwap"),
		p("Delete(head-tail)", "below", 1, "delete.afterFind", "delete.afterSyncUnlock", "delete.afterRewrite", "delete.head.beforeSwap"),
		p("Delete(head-first)", "below", 1, "delete.afterFind", "delete.afterRewrite", "delete.head.beforeSwap"),
		p("Delete(head-all)", "below", 1, "delete.afterFind", "delete.afterRewrite"),
		p("Delete(head-mid)", "above", 1, "delete.afterFind", "delete.afterSyncUnlock", "delete.afterRewrite"),
		p("Delete(head-tail)", "above", 1, "delete.afterFind", "delete.afterRewrite"),
		p("Delete(reader-first)", "below", 1, "delete.afterFind", "delete.afterRewrite", "delete.reader.beforeSwap"),
		p("Delete(reader-mid)", "below", 1, "delete.afterFind", "delete.afterRewrite", "delete.reader.beforeSwap"),
		p("Delete(reader-all)", "below", 1, "delete.afterFind", "delete.afterRewrite", "delete.reader.beforeSwap"),
		p("Consume(reader)", "gc", 1, "reader.getIndex.beforeLoad", "reader.afterIndex", "reader.getMessages.beforeLoad", "reader.afterGetMessages"),
		p("Consume(head)", "below", 1, "reader.afterIndex", "reader.afterGetMessages"),
		p("Get(reader)", "gc", 1, "reader.getIndex.beforeLoad", "reader.getMessages.beforeLoad"),
		p("GetByKey(b)", "gc", 1, "reader.getIndex.beforeLoad", "reader.getMessages.beforeLoad"),
		p("GetByKey(old)", "gc", 1, "reader.getIndex.beforeLoad", "reader.getMessages.beforeLoad"),
		p("GetByKey(old)", "gc", 2, "reader.getIndex.beforeLoad"),
		p("ConsumeByKey(old)", "gc", 1, "reader.getIndex.beforeLoad", "reader.getMessages.beforeLoad"),
		p("GetByTime(first)", "gc", 1, "reader.getIndex.beforeLoad", "reader.getMessages.beforeLoad"),
		p("ConsumeByKey(a)", "gc", 1, "reader.getIndex.beforeLoad", "reader.getMessages.beforeLoad"),
		p("GC", "below", 1, "reader.gc.afterCloseIndex"),
		p("ConsumeByKey(a,next)", "below", 1, "reader.consumeByKey.afterKeys"),
		p("ConsumeByKey(zz,head)", "below", 1, "reader.consumeByKey.afterKeys"),
	}
}

var ctrlEpilogues = [][]string{
	{},
	{"Delete(head-first)"},
	{"GC", "Consume(oldest)"},
	{"Publish(big)", "Delete(head-first)"},
	{"Delete(reader2-first)", "Publish(1)"},
	{"Publish(big)", "Publish(1)", "Delete(reader-mid)"},
}

// buildPreset creates: reader segment 1 (4 msgs), reader segment 2 (3 msgs), head with 3 msgs that is
// below or above the rollover threshold.
func (cr *concRun) buildPreset(kind string) *ctrlState {
	st := &ctrlState{}
	first := cr.pubOp(99, 4, true)   // > rollover: next publish rolls
	first.Pub[1].Key = []byte("old") // a key that only lives in the oldest segment: lookups walk all the way down
	o := cr.seqOp(first)
	st.readerFirst, st.readerMid, st.readerLast = o.Next-4, o.Next-3, o.Next-1
	o = cr.seqOp(cr.pubOp(99, 3, true))
	st.reader2First = o.Next - 3
	if kind == "above" {
		o = cr.seqOp(cr.pubOp(99, 3, true))
	} else {
		o = cr.seqOp(cr.pubOp(99, 3, false))
	}
	st.headFirst, st.headMid, st.headLast = o.Next-3, o.Next-2, o.Next-1
	st.next = o.Next
	if kind == "gc" {
		cr.seqOp(&cOp{Kind: "gc"})
	}
	return st
}

func (st *ctrlState) refresh(cr *concRun) {
	// after the concurrent part the head may have moved: recompute the head offsets for the epilogue
	m := cr.hist.expectedFinalLoose()
	lay := layoutOf(cr.dir)
	if len(lay.Bases) == 0 {
		return
	}
	hb := lay.Bases[len(lay.Bases)-1]
	var head []int64
	for _, x := range m {
		if x >= hb {
			head = append(head, x)
		}
	}
	if len(head) > 0 {
		st.headFirst, st.headMid, st.headLast = head[0], head[len(head)/2], head[len(head)-1]
	}
	if len(lay.Bases) > 2 {
		st.reader2First = lay.Bases[len(lay.Bases)-2]
	}
}

func (h *concHist) expectedFinalLoose() []int64 {
	gone := map[int64]bool{}
	var all []int64
	for _, o := range h.ops {
		if !o.Done {
			continue
		}
		if o.Kind == "delete" {
			for _, m := range o.Out {
				gone[m.Offset] = true
			}
		}
		if o.Kind == "publish" && o.Err == "" {
			for _, m := range o.Pub {
				all = append(all, m.Offset)
			}
		}
	}
	var out []int64
	for _, x := range all {
		if !gone[x] {
			out = append(out, x)
		}
	}
	sort.Slice(out, func(i, j int) bool { return out[i] < out[j] })
	return out
}

type ctrlScenario struct {
	prim     ctrlPrimary
	window   string
	secs     []string
	epilogue []string
	keepVer  bool
	autoSync bool
}

func (s ctrlScenario) String() string {
	return fmt.Sprintf("%s@%s[%s] + %v ; epilogue %v keepver=%v", s.prim.name, s.window, s.prim.preset, s.secs, s.epilogue, s.keepVer)
}

func enumerateScenarios(tier string, seed int64, scale float64) []ctrlScenario {
	alpha := ctrlAlphabet()
	prims := ctrlPrimaries(alpha)
	var secNames []string
	for _, c := range alpha {
		secNames = append(secNames, c.name)
	}
	r := NewRand(seed, 4242)
	var out []ctrlScenario
	k := 0
	for _, p := range prims {
		for _, w := range p.windows {
			add := func(secs []string) {
				k++
				out = append(out, ctrlScenario{prim: p, window: w, secs: secs, epilogue: ctrlEpilogues[k%len(ctrlEpilogues)], keepVer: k%2 == 0, autoSync: w == "publish.beforeAutoSync" || k%7 == 0})
			}
			add(nil)
			for _, s := range secNames {
				add([]string{s})
			}
			// ordered pairs: all in thorough, a seeded fraction in quick
			frac := 0.05
			if tier == "thorough" {
				frac = 1
			}
			frac *= scale
			for _, a := range secNames {
				for _, b := range secNames {
					if r.Chance(frac) {
						add([]string{a, b})
					}
				}
			}
		}
	}
	return out
}

// runScenario executes one controlled scenario.
func runScenario(cfg *RunCfg, rep *Reporter, cov *Cov, idx int, sc ctrlScenario, alpha []ctrlCall) {
	opts := OpenOpts{KeyIndex: true, TimeIdx: true, Rollover: 400, KeepVer: sc.keepVer, AutoSync: sc.autoSync}
	cr := newConcRun(cfg, rep, cov, fmt.Sprintf("s%d", idx), opts)
	if cr == nil {
		return
	}
	defer cr.close()
	st := cr.buildPreset(sc.prim.preset)
	hm := &hookMode{dyn: map[int64]*hookClient{}}
	installHook(hm)
	defer installHook(nil)
	replay := map[string]any{"phase": "controlled", "scenario": sc.String(), "index": idx, "seed": cfg.Seed}
	// primary
	pc := &hookClient{id: 0, armPoint: sc.window, armNth: sc.prim.nth, arrived: make(chan string, 1), release: make(chan struct{}), points: map[string]int{}, hits: map[string]int{}}
	pop := sc.prim.call.mk(cr, st)
	pop.Client = 0
	pdone := make(chan struct{})
	go func() {
		hm.mu.Lock()
		hm.dyn[goid()] = pc
		hm.mu.Unlock()
		execOp(cr.l, pop)
		close(pdone)
	}()
	held := false
	select {
	case <-pc.arrived:
		held = true
	case <-pdone:
	case <-time.After(20 * time.Second):
		rep.Inconclusive("primary neither arrived nor finished")
		return
	}
	winKey := sc.prim.name + "@" + sc.window
	if held {
		cov.Add("windows_reached."+sc.window, 1)
		cov.Distinct("windows", winKey)
	} else {
		cov.Add("windows_unreached", 1)
		cov.Distinct("windows_unreached_set", winKey)
	}
	// secondaries, one after the other; each either completes inside the window or queues behind it
	type secRun struct {
		op   *cOp
		done chan struct{}
		gid  int64
	}
	var secs []*secRun
	inside := 0
	for si, name := range sc.secs {
		call := findCall(alpha, name)
		op := call.mk(cr, st)
		op.Client = si + 1
		sr := &secRun{op: op, done: make(chan struct{})}
		gch := make(chan int64, 1)
		go func() {
			gch <- goid()
			execOp(cr.l, op)
			close(sr.done)
		}()
		sr.gid = <-gch
		secs = append(secs, sr)
		// wait until it finished or is parked behind a lock (wait states only shape the schedule)
		finished := false
		for spin := 0; spin < 4000 && !finished; spin++ {
			select {
			case <-sr.done:
				finished = true
			default:
				if spin%20 == 19 {
					if ws, ok := waitStates()[sr.gid]; ok && isBlockedState(ws[0]) {
						spin = 1 << 30
						break
					}
				}
				time.Sleep(50 * time.Microsecond)
			}
		}
		if finished && held {
			inside++
			cov.Add("secondaries_completed_inside_window", 1)
		} else if !finished {
			cov.Add("secondaries_queued_behind_window", 1)
		}
	}
	if held {
		close(pc.release)
	}
	// join
	deadline := time.After(30 * time.Second)
	all := []chan struct{}{pdone}
	for _, s := range secs {
		all = append(all, s.done)
	}
	for _, ch := range all {
		select {
		case <-ch:
		case <-deadline:
			ws := waitStates()
			var desc []string
			stuck := true
			for _, s := range secs {
				if w, ok := ws[s.gid]; ok {
					desc = append(desc, fmt.Sprintf("%s: [%s] %s", s.op.Kind, w[0], w[1]))
					if !isBlockedState(w[0]) {
						stuck = false
					}
				}
			}
			if stuck {
				replay["goroutines"] = desc
				rep.Report(Violation{Property: "C08", Sig: "concmon|deadlock:" + winKey, What: "calls never returned after the held call was released: " + strings.Join(desc, "; "), Replay: replay})
			} else {
				rep.Inconclusive("scenario watchdog fired")
			}
			return
		}
	}
	cr.hist.ops = append(cr.hist.ops, pop)
	for _, s := range secs {
		cr.hist.ops = append(cr.hist.ops, s.op)
	}
	installHook(nil)
	// epilogue (sequential)
	st.refresh(cr)
	for _, name := range sc.epilogue {
		cr.seqOp(findCall(alpha, name).mk(cr, st))
		st.refresh(cr)
	}
	cov.Add("ctrl.scenarios", 1)
	if held && inside > 0 {
		cov.Distinct("c08", fmt.Sprintf("%s|%s|%v", sc.window, sc.prim.name, sc.secs))
	}
	if idx%211 == 0 {
		var hs []string
		for _, o := range cr.hist.sorted() {
			hs = append(hs, o.String())
		}
		cov.Sample("ctrl-"+sc.window, map[string]any{"phase": "controlled", "scenario": sc.String(), "held_in_window": held, "secondaries_completed_inside": inside, "history": hs})
	}
	cr.finish("controlled", replay, 10*time.Second)
}

// ---------------------------------------------------------------------------------------
// engine

// runSharded runs the engine in nShards child processes (the hook handler is process-global, so
// parallelism needs processes) and merges their coverage and findings.
func runSharded(cfg *RunCfg, rep *Reporter, cov *Cov, nShards int) {
	results := make([]shardResult, nShards)
	errs := make([]error, nShards)
	parallel(nShards, nShards, func(i int) {
		args := []string{"check", "-property", cfg.Property, "-tier", cfg.Tier, "-seed", strconv.FormatInt(cfg.Seed, 10), "-findings", cfg.Findings,
			"-replays", cfg.Replays, "-scale", strconv.FormatFloat(cfg.Scale, 'f', -1, 64), "-shard", strconv.Itoa(i), "-shards", strconv.Itoa(nShards)}
		cmd := exec.Command(cfg.Self, args...)
		cmd.Stderr = os.Stderr
		out, err := cmd.Output()
		if err != nil {
			errs[i] = err
			return
		}
		for _, ln := range strings.Split(string(out), "\n") {
			if strings.HasPrefix(ln, "SHARD-RESULT ") {
				if jerr := json.Unmarshal([]byte(strings.TrimPrefix(ln, "SHARD-RESULT ")), &results[i]); jerr != nil {
					errs[i] = jerr
				}
				return
			}
		}
		errs[i] = fmt.Errorf("shard %d produced no result", i)
	})
	for i := range results {
		if errs[i] != nil {
			// a shard that died (runtime-fatal error in klevdb, or a harness fault) must not be read as "held"
			fmt.Printf("SHARD-FAILED property=%s shard=%d: %v\n", cfg.Property, i, errs[i])
			rep.Report(Violation{Property: cfg.Property, Sig: "concmon|shard-died", What: fmt.Sprintf("shard process %d of the concurrency engine died: %v (see stderr above for the Go runtime's report)", i, errs[i])})
			continue
		}
		mergeShard(rep, cov, results[i])
	}
}

func mine(cfg *RunCfg, idx int) bool {
	return cfg.Shards <= 1 || idx%cfg.Shards == cfg.Shard
}

func runC08(cfg *RunCfg, rep *Reporter, cov *Cov, ev *Evidence) {
	if cfg.Shards == 0 {
		runSharded(cfg, rep, cov, 8)
		fillC08Evidence(cfg, rep, cov, ev)
		return
	}
	phases := os.Getenv("VERIF_C08_PHASES") // debugging aid: "ctrl", "perturb", "stress" or any combination
	on := func(p string) bool { return phases == "" || strings.Contains(phases, p) }
	alpha := ctrlAlphabet()
	scs := enumerateScenarios(cfg.Tier, cfg.Seed, cfg.Scale)
	for i, sc := range scs {
		if mine(cfg, i) && on("ctrl") {
			runScenario(cfg, rep, cov, i, sc, alpha)
		}
	}
	nh := 1200
	if cfg.Tier == "thorough" {
		nh = 16000
	}
	nh = int(float64(nh) * cfg.Scale)
	for i := 0; i < nh; i++ {
		if !mine(cfg, i) || !on("perturb") {
			continue
		}
		r := NewRand(cfg.Seed, 77, int64(i))
		opts := OpenOpts{KeyIndex: true, TimeIdx: i%3 != 0, Rollover: pick(r, []int64{150, 300, 600, 5000}), KeepVer: i%2 == 0, AutoSync: i%5 == 0, NewVer: pick(r, []int{2, 2, 1}), Typed: i%7 == 5}
		cr := newConcRun(cfg, rep, cov, fmt.Sprintf("p%d", i), opts)
		if cr == nil {
			continue
		}
		cr.bigBatches = i%49 == 5 // a few typed histories publish batches of more than a thousand messages (at most one per client)
		cr.runPerturb(i, cfg.Seed, 3+r.Intn(6), 12+r.Intn(24))
		cr.close()
		if cov.Get("perturb.watchdog_fired") >= 2 {
			// calls that never return: each further history would sit out its watchdog as well; what
			// was seen is reported, the rest of the phase adds nothing
			cov.Add("perturb.phase_cut_short_after_deadlocks", 1)
			break
		}
	}
	nham := 2
	if cfg.Tier == "thorough" {
		nham = 12
	}
	for i := 0; i < nham; i++ {
		if mine(cfg, i) && on("stress") {
			runChild(cfg, rep, cov, "hammer", i)
		}
	}
	nfol := 3
	if cfg.Tier == "thorough" {
		nfol = 20
	}
	for i := 0; i < nfol; i++ {
		if mine(cfg, i+3) && on("stress") {
			runChild(cfg, rep, cov, "follow", i)
		}
	}
	for i := 0; i < 2; i++ {
		if mine(cfg, i+6) && on("stress") {
			runChild(cfg, rep, cov, "statwalk", i)
		}
	}
	finishRace(cfg, rep, cov, ev, "C08")
}

func fillC08Evidence(cfg *RunCfg, rep *Reporter, cov *Cov, ev *Evidence) {
	ev.Coverage["race_detector_enabled"] = raceEnabled()
	ev.Coverage["race_reports_raw"] = cov.Get("race.raw")
	ev.Coverage["race_reports_without_klevdb_frame"] = cov.Get("race.harness")
	ev.Coverage["race_reports_distinct"] = int64(cov.SetSize("race.distinct"))
	ev.Coverage["shards"] = 8
	ev.Coverage["statwalk_runs"] = cov.Get("statwalk.runs")
	ev.Coverage["statwalk_stat_calls"] = cov.Get("statwalk.stats")
	ev.Coverage["statwalk_rebasing_deletes"] = cov.Get("statwalk.deletes")
	ev.Coverage["follow_runs"] = cov.Get("follow.runs")
	ev.Coverage["follow_publishes"] = cov.Get("follow.publishes")
	ev.Coverage["follow_consume_calls"] = cov.Get("follow.consumes")
	ev.Coverage["follow_caught_up_polls"] = cov.Get("follow.caughtup")
	ev.Coverage["hammer_runs"] = cov.Get("hammer.runs")
	ev.Coverage["hammer_head_deletes"] = cov.Get("hammer.deletes")
	ev.Coverage["hammer_publishes"] = cov.Get("hammer.publishes")
	ev.Coverage["evaluations"] = cov.Get("evaluations")
	ev.Coverage["distinct_nontrivial"] = int64(cov.SetSize("c08"))
	ev.Coverage["distinct_examples"] = cov.SetMembers("c08", 14)
	ev.Coverage["controlled_scenarios"] = cov.Get("ctrl.scenarios")
	ev.Coverage["windows_reached"] = cov.Counts("windows_reached.")
	ev.Coverage["distinct_primary_windows_reached"] = int64(cov.SetSize("windows"))
	ev.Coverage["primary_windows_never_reached"] = cov.SetMembers("windows_unreached_set", 0)
	ev.Coverage["secondaries_completed_inside_window"] = cov.Get("secondaries_completed_inside_window")
	ev.Coverage["secondaries_queued_behind_window"] = cov.Get("secondaries_queued_behind_window")
	ev.Coverage["perturb_histories"] = cov.Get("perturb.histories")
	ev.Coverage["perturb_calls"] = cov.Get("perturb.calls")
	ev.Coverage["perturb_sleeps_injected"] = cov.Get("perturb.sleeps")
	ev.Coverage["hook_points_hit_in_perturb"] = cov.Counts("points.")
	ev.Coverage["overlapping_call_pairs"] = cov.Get("overlaps")
	ev.Coverage["porcupine"] = cov.Counts("porcupine.")
	ev.Coverage["samples"] = cov.Samples()
}

func finishRace(cfg *RunCfg, rep *Reporter, cov *Cov, ev *Evidence, prop string) {
	ev.Coverage["race_detector_enabled"] = raceEnabled()
	if !raceEnabled() {
		rep.Inconclusive("binary built without -race")
	}
	reports := readRaceLogs()
	cov.Add("race.raw", int64(len(reports)+harnessRaces))
	cov.Add("race.harness", int64(harnessRaces))
	ev.Coverage["race_reports_raw"] = len(reports) + harnessRaces
	ev.Coverage["race_reports_without_klevdb_frame"] = harnessRaces
	if harnessRaces > 0 {
		rep.Inconclusive(fmt.Sprintf("%d race reports involve only harness code", harnessRaces))
	}
	seen := map[string]bool{}
	for _, rr := range reports {
		if seen[rr.frames] {
			continue
		}
		seen[rr.frames] = true
		cov.Distinct("race.distinct", rr.frames)
		rep.Report(Violation{Property: prop, Sig: "concmon|race|" + rr.frames, What: "data race reported by the Go race detector between " + rr.frames, Detail: rr.text, Replay: map[string]any{"seed": cfg.Seed, "report": rr.text}})
	}
	ev.Coverage["race_reports_distinct"] = len(seen)
}

// runHammer: a publisher appending records larger than a page, as fast as it can, while a deleter
// rewrites the head segment. The unlocked head rewrite then regularly reads a record that is half-way
// through being appended. Bounded by the number of deletes, not by time. Only the deletes are
// recorded call by call; publishes are counted and checked through the final scan.
func runHammer(cfg *RunCfg, rep *Reporter, cov *Cov, idx int) {
	opts := OpenOpts{KeyIndex: idx%2 == 1, TimeIdx: false, Rollover: 1 << 20, KeepVer: idx%3 == 1}
	cr := newConcRun(cfg, rep, cov, fmt.Sprintf("ham%d", idx), opts)
	if cr == nil {
		return
	}
	defer cr.close()
	nDel := 300
	stop := make(chan struct{})
	pubDone := make(chan struct{})
	var pubErr error
	var lastNext int64
	val := make([]byte, 4300+(idx%3)*700)
	go func() {
		defer close(pubDone)
		for n := 0; n < 3_000_000; n++ {
			select {
			case <-stop:
				return
			default:
			}
			nx, err := cr.l.Publish([]klevdb.Message{{Key: []byte("a"), Value: val}})
			if err != nil {
				pubErr = err
				return
			}
			if nx != lastNext+1 {
				pubErr = fmt.Errorf("Publish returned %d after %d", nx, lastNext)
				return
			}
			lastNext = nx
		}
	}()
	var dels []*cOp
	for n := 0; n < nDel; {
		nx, err := kNext(cr.l)
		if err != nil || nx < 3 {
			runtime.Gosched()
			continue
		}
		o := &cOp{Kind: "delete", Client: 1, Offsets: []int64{nx - 2}}
		execOp(cr.l, o)
		dels = append(dels, o)
		n++
	}
	close(stop)
	<-pubDone
	cov.Add("hammer.runs", 1)
	cov.Add("hammer.deletes", int64(len(dels)))
	cov.Add("hammer.publishes", lastNext)
	cov.Add("evaluations", 1)
	report := func(sig, what string) {
		cr.rep.Report(Violation{Property: "C08", Sig: "concmon|" + sig, What: what, Replay: map[string]any{"phase": "hammer", "index": idx}})
	}
	if pubErr != nil {
		report("error:Publish:hammer", "Publish failed while deletes were in progress: "+pubErr.Error())
		return
	}
	gone := map[int64]bool{}
	for _, o := range dels {
		if o.Err != "" && o.Err != "ErrNotFound" && o.Err != "ErrInvalidOffset" {
			report("error:Delete:"+o.Err, "Delete failed while publishes were in progress: "+o.ErrText)
			return
		}
		for _, m := range o.Out {
			if gone[m.Offset] || m.Offset != o.Offsets[0] {
				report("delete:reported-twice-or-unrequested", o.String())
				return
			}
			gone[m.Offset] = true
		}
	}
	// final scan: every offset in [0,next) except the reported ones, in order
	want := int64(0)
	cur := klevdb.OffsetOldest
	for {
		nx, ms, err := kConsume(cr.l, cur, 64)
		if err != nil {
			report("final-state:scan:error:"+errClass(err), "final scan failed: "+errText(err))
			return
		}
		for _, m := range ms {
			for gone[want] {
				want++
			}
			if m.Offset != want || len(m.Value) != len(val) {
				report("final-state:scan:mismatch", fmt.Sprintf("final scan shows offset %d (value %d bytes), expected offset %d", m.Offset, len(m.Value), want))
				return
			}
			want++
		}
		if len(ms) == 0 {
			if nx != lastNext {
				report("final-state:scan:end", fmt.Sprintf("final scan ended at %d, NextOffset %d", nx, lastNext))
			}
			break
		}
		cur = nx
	}
	for gone[want] {
		want++
	}
	if want != lastNext {
		report("final-state:scan:missing", fmt.Sprintf("final scan ended after offset %d, %d were published", want-1, lastNext))
	}
}

// finishLight: stream monitors and the final scan only (histories too long for porcupine).
func (cr *concRun) finishLight(replay map[string]any) {
	h := cr.hist
	cr.cov.Add("evaluations", 1)
	report := func(f *Fail) {
		var hist []string
		for _, o := range h.ops {
			if o.Err != "" && len(hist) < 50 {
				hist = append(hist, o.String()+" "+o.ErrText)
			}
		}
		replay["failed_calls"] = hist
		cr.rep.Report(Violation{Property: "C08", Sig: "concmon|" + f.Sig, What: f.What, Replay: replay})
	}
	if f := h.streamMonitors(); f != nil {
		report(f)
		return
	}
	m := h.expectedFinal()
	got, end, f := scanLog(cr.l, 32, len(m.Live)+64)
	if f == nil {
		if f = compareSeq(got, m.Live); f == nil && end != m.Next {
			f = failf("scan:end", "final scan ended at %d, expected %d", end, m.Next)
		}
	}
	if f != nil {
		f.Sig = "final-state:" + f.Sig
		report(f)
	}
}

// The hammer runs in a child process built WITHOUT the race detector (the instrumented binary is too
// slow to keep the publisher inside write(2) for a useful share of the time); the race detector is
// not what decides this scenario.
func init() {
	subcommands["hammer"] = func(args []string) int {
		if len(args) < 2 {
			return 2
		}
		idx, _ := strconv.Atoi(args[0])
		cfg := &RunCfg{Property: "C08", Scratch: args[1], Replays: args[1]}
		rep := NewReporter(cfg)
		cov := NewCov()
		runHammer(cfg, rep, cov, idx)
		for _, sig := range rep.order {
			v := rep.viol[sig]
			fmt.Printf("V\t%s\t%s\n", v.Sig, strings.ReplaceAll(v.What, "\n", " "))
		}
		fmt.Printf("S\tpublishes=%d\tdeletes=%d\n", cov.Get("hammer.publishes"), cov.Get("hammer.deletes"))
		return 0
	}
	subcommands["statwalk"] = func(args []string) int {
		if len(args) < 2 {
			return 2
		}
		idx, _ := strconv.Atoi(args[0])
		cfg := &RunCfg{Property: "C08", Scratch: args[1], Replays: args[1]}
		rep := NewReporter(cfg)
		cov := NewCov()
		runStatWalk(cfg, rep, cov, idx)
		for _, sig := range rep.order {
			v := rep.viol[sig]
			fmt.Printf("V\t%s\t%s\n", v.Sig, strings.ReplaceAll(v.What, "\n", " "))
		}
		fmt.Printf("S\tstats=%d\tdeletes=%d\n", cov.Get("statwalk.stats"), cov.Get("statwalk.deletes"))
		return 0
	}
	subcommands["follow"] = func(args []string) int {
		if len(args) < 2 {
			return 2
		}
		idx, _ := strconv.Atoi(args[0])
		cfg := &RunCfg{Property: "C08", Scratch: args[1], Replays: args[1]}
		rep := NewReporter(cfg)
		cov := NewCov()
		runFollow(cfg, rep, cov, idx)
		for _, sig := range rep.order {
			v := rep.viol[sig]
			fmt.Printf("V\t%s\t%s\n", v.Sig, strings.ReplaceAll(v.What, "\n", " "))
		}
		fmt.Printf("S\tpublishes=%d\tconsumes=%d\tcaughtup=%d\n", cov.Get("follow.publishes"), cov.Get("follow.consumes"), cov.Get("follow.caughtup"))
		return 0
	}
}

// runFollow: one publisher, several consumers that follow the tail of the log (no deletes). Every
// follower checks its own stream: without deletes each Consume must continue exactly at its cursor,
// and a result without messages must not move the cursor (stream monitor "no unexplained gap",
// specialised). Bounded by the number of publishes.
func runFollow(cfg *RunCfg, rep *Reporter, cov *Cov, idx int) {
	opts := OpenOpts{KeyIndex: idx%2 == 0, Rollover: []int64{400, 20000, 1 << 20}[idx%3]}
	cr := newConcRun(cfg, rep, cov, fmt.Sprintf("fol%d", idx), opts)
	if cr == nil {
		return
	}
	defer cr.close()
	nPub := 40000
	nFol := 3 + idx%3*2 // 3, 5 or 7 followers: more only makes them fight over cache lines
	var pubErr error
	pubDone := make(chan struct{})
	go func() {
		defer close(pubDone)
		for n := 0; n < nPub; n++ {
			k := 1 + n%3
			msgs := make([]klevdb.Message, k)
			for j := range msgs {
				msgs[j] = klevdb.Message{Key: []byte("a"), Value: []byte("v")}
			}
			if _, err := cr.l.Publish(msgs); err != nil {
				pubErr = err
				return
			}
		}
	}()
	type res struct {
		calls, caught int
		fail          string
	}
	results := make(chan res, nFol)
	for f := 0; f < nFol; f++ {
		// by-key followers only with small segments: ConsumeByKey walks every position of the key in a segment
		byKey := opts.KeyIndex && f%2 == 1 && opts.Rollover <= 20000
		go func() {
			var r res
			cursor := int64(0)
			for {
				var nx int64
				var ms []klevdb.Message
				var err error
				if byKey {
					nx, ms, err = cr.l.ConsumeByKey([]byte("a"), cursor, 16)
				} else {
					nx, ms, err = cr.l.Consume(cursor, 16)
				}
				r.calls++
				if err != nil {
					r.fail = fmt.Sprintf("error:consume:%s\tConsume(%d) failed while publishes were in progress: %s", errClass(err), cursor, errText(err))
					break
				}
				for _, m := range ms {
					if m.Offset != cursor {
						r.fail = fmt.Sprintf("consume:unexplained-gap\tConsume at cursor %d returned offset %d: offsets in between were skipped although nothing was deleted", cursor, m.Offset)
						break
					}
					cursor++
				}
				if r.fail != "" {
					break
				}
				if len(ms) == 0 {
					r.caught++
					if r.caught%4 == 0 {
						runtime.Gosched()
					}
					if nx != cursor {
						r.fail = fmt.Sprintf("consume:unexplained-gap\tConsume(%d) returned no messages and next offset %d: the messages in between were skipped although nothing was deleted", cursor, nx)
						break
					}
					select {
					case <-pubDone:
						// publisher finished: one more pass decides whether we are really at the end
						if fin, _ := kNext(cr.l); fin == cursor {
							results <- r
							return
						}
					default:
					}
				} else if nx != cursor {
					r.fail = fmt.Sprintf("consume:next-after-run\tConsume returned next offset %d after delivering up to %d", nx, cursor-1)
					break
				}
			}
			results <- r
		}()
	}
	for f := 0; f < nFol; f++ {
		r := <-results
		cov.Add("follow.consumes", int64(r.calls))
		cov.Add("follow.caughtup", int64(r.caught))
		if r.fail != "" {
			parts := strings.SplitN(r.fail, "\t", 2)
			rep.Report(Violation{Property: "C08", Sig: "concmon|" + parts[0], What: parts[1], Replay: map[string]any{"phase": "follow", "index": idx}})
		}
	}
	<-pubDone
	if pubErr != nil {
		rep.Report(Violation{Property: "C08", Sig: "concmon|error:Publish:follow", What: "Publish failed: " + pubErr.Error()})
	}
	fin, _ := kNext(cr.l)
	cov.Add("follow.publishes", fin)
}

func runChild(cfg *RunCfg, rep *Reporter, cov *Cov, mode string, idx int) {
	bin := filepath.Join(filepath.Dir(cfg.Self), "vmon")
	if _, err := os.Stat(bin); err != nil {
		rep.Inconclusive("non-race binary for the " + mode + " scenario is missing")
		return
	}
	// generous wall-clock watchdog (a run takes seconds): its firing is inconclusive, not a verdict
	ctx, cancel := context.WithTimeout(context.Background(), 5*time.Minute)
	defer cancel()
	cmd := exec.CommandContext(ctx, bin, mode, strconv.Itoa(idx), cfg.Scratch)
	cmd.WaitDelay = 5 * time.Second
	out, err := cmd.Output()
	if ctx.Err() != nil {
		rep.Inconclusive(mode + " child did not finish within its watchdog")
		return
	}
	if err != nil {
		rep.Inconclusive(mode + " child failed: " + clipStr(err.Error(), 100))
		return
	}
	cov.Add("evaluations", 1)
	for _, ln := range strings.Split(string(out), "\n") {
		f := strings.Split(ln, "\t")
		switch {
		case len(f) == 3 && f[0] == "V":
			rep.Report(Violation{Property: "C08", Sig: f[1], What: "[" + mode + " stress] " + f[2], Replay: map[string]any{"phase": mode, "index": idx, "how": "vmon " + mode + " <index> <scratch dir>"}})
		case len(f) >= 3 && f[0] == "S":
			cov.Add(mode+".runs", 1)
			for _, kv := range f[1:] {
				if i := strings.IndexByte(kv, '='); i > 0 {
					n, _ := strconv.Atoi(kv[i+1:])
					cov.Add(mode+"."+kv[:i], int64(n))
				}
			}
			cov.Distinct("c08", "overlap:"+mode)
		}
	}
}

// runStatWalk: many sealed segments; one goroutine deletes the first message of every segment (each
// delete renames the segment to a new base), from the newest to the oldest, while Stat and a full
// scan run in a loop. Every Stat must lie within the bounds given by the deletes around it, every
// scan must see each segment's survivors. Bounded by the number of segments.
func runStatWalk(cfg *RunCfg, rep *Reporter, cov *Cov, idx int) {
	opts := OpenOpts{KeyIndex: idx%2 == 0, TimeIdx: idx%2 == 1, Rollover: 100}
	cr := newConcRun(cfg, rep, cov, fmt.Sprintf("sw%d", idx), opts)
	if cr == nil {
		return
	}
	defer cr.close()
	nSeg := 120
	per := 4
	val := make([]byte, 30)
	for sgm := 0; sgm < nSeg; sgm++ {
		msgs := make([]klevdb.Message, per)
		for j := range msgs {
			msgs[j] = klevdb.Message{Key: []byte("a"), Value: val}
		}
		if _, err := cr.l.Publish(msgs); err != nil {
			return
		}
	}
	total := nSeg * per
	var started, finished atomic.Int64
	done := make(chan struct{})
	var delErr error
	go func() {
		defer close(done)
		for sgm := nSeg - 2; sgm >= 0; sgm-- { // not the head
			started.Add(1)
			del, _, err := cr.l.Delete(map[int64]struct{}{int64(sgm * per): {}})
			if err != nil || len(del) != 1 {
				delErr = fmt.Errorf("Delete(%d) = %d messages, %v", sgm*per, len(del), err)
				return
			}
			finished.Add(1)
		}
	}()
	report := func(sig, what string) {
		rep.Report(Violation{Property: "C08", Sig: "concmon|" + sig, What: what, Replay: map[string]any{"phase": "statwalk", "index": idx}})
	}
	for {
		fin0 := finished.Load()
		st, err := cr.l.Stat()
		sta1 := started.Load()
		cov.Add("statwalk.stats", 1)
		if err != nil {
			report("error:stat:"+errClass(err), "Stat failed while deletes were in progress: "+errText(err))
			break
		}
		lo, hi := total-int(sta1), total-int(fin0)
		if st.Messages < lo || st.Messages > hi || st.Segments != nSeg {
			report("stat:out-of-bounds", fmt.Sprintf("Stat reported %d messages in %d segments; the log has %d segments and the deletes around the call allow only %d..%d messages", st.Messages, st.Segments, nSeg, lo, hi))
			break
		}
		select {
		case <-done:
			if delErr != nil {
				report("error:Delete:statwalk", delErr.Error())
			}
			cov.Add("statwalk.deletes", finished.Load())
			return
		default:
		}
	}
	<-done
	cov.Add("statwalk.deletes", finished.Load())
}
