package main

import (
	"bufio"
	"fmt"
	"os"
	"os/exec"
	"path/filepath"
	"strings"
	"sync"
	"time"

	"github.com/klev-dev/klevdb"

	"verifharness/ref"
)

// lockmon (C19): exhaustive open/close sequences against a lock-state automaton, a cross-process
// variant, and (through histmon's "rosession" op) read-only handles compared with read-write ones.

func init() {
	engines["lockmon"] = func(cfg *RunCfg, rep *Reporter, cov *Cov, ev *Evidence) {
		runLockmon(cfg, rep, cov)
		runHistmon(cfg, rep, cov)
		fillHistEvidence(cfg, ev, cov)
		ev.Coverage["distinct_nontrivial"] = int64(cov.SetSize("c19") + cov.SetSize("lock"))
		ev.Coverage["lock_sequences"] = cov.Get("lock.sequences")
		ev.Coverage["lock_actions"] = cov.Counts("lock.action.")
		ev.Coverage["lock_distinct_state_action_outcome"] = int64(cov.SetSize("lock"))
		ev.Coverage["lock_state_action_examples"] = cov.SetMembers("lock", 16)
		ev.Coverage["cross_process_cases"] = cov.Get("lock.xproc")
		ev.Coverage["exhaustive_sequence_length"] = cov.Get("lock.length")
	}
	subcommands["hold-lock"] = holdLock
	props["C19"] = propInfo{Engine: "lockmon", Level: "exploration",
		Rule:   "all sequences of a fixed length over {open rw, open ro, close slot i, publish, open that fails on a corrupt head index (rw / ro+Check), open of a missing directory} with up to three handles, each run on a fresh directory against the lock automaton; a cross-process variant; plus histories with read-only sessions compared with a read-write handle on a copy of the same files. distinct_nontrivial = distinct (automaton state, action, outcome) triples + distinct (state signature, index files removed, #segments) of read-only sessions",
		Assume: []string{"flock(2) semantics of the kernel; handles in one process use distinct open file descriptions, so they exclude each other like separate processes (a real second process is used in the cross-process cases)"}}
}

type lockAct int

const (
	aOpenRW lockAct = iota
	aOpenRO
	aClose0
	aClose1
	aClose2
	aPublish
	aCorruptRW
	aCorruptRO
	aMissing
	nLockActs
)

var lockActNames = []string{"open-rw", "open-ro", "close0", "close1", "close2", "publish", "open-rw-corrupt-index", "open-ro-check-corrupt-index", "open-missing-dir"}

type lockSlot struct {
	l  klevdb.Log
	rw bool
}

func runLockmon(cfg *RunCfg, rep *Reporter, cov *Cov) {
	L := 6
	if cfg.Tier == "thorough" {
		L = 8
	}
	if cfg.Scale < 1 {
		L = 5
	}
	cov.Add("lock.length", int64(L))
	// enumerate all action sequences of length L; sequences whose action is not applicable in the
	// automaton state (close of an empty slot, publish without writer, corrupt-open while a handle
	// is open) are pruned at that point, so every applicable prefix is still executed.
	total := 1
	for i := 0; i < L; i++ {
		total *= int(nLockActs)
	}
	parallel(total, cfg.Workers, func(code int) {
		seq := make([]lockAct, L)
		c := code
		for i := L - 1; i >= 0; i-- {
			seq[i] = lockAct(c % int(nLockActs))
			c /= int(nLockActs)
		}
		runLockSeq(cfg, rep, cov, code, seq)
	})
	runLockXProc(cfg, rep, cov)
	runROEmptyDir(cfg, rep, cov)
	runBlockingOpenFails(cfg, rep, cov)
	runROConcurrent(cfg, rep, cov)
	runROCloseVsQuery(cfg, rep, cov)
	runCloseVsDelete(cfg, rep, cov)
	runROOptionMix(cfg, rep, cov)
}

func runLockSeq(cfg *RunCfg, rep *Reporter, cov *Cov, code int, seq []lockAct) {
	// cheap static pruning before touching the file system
	{
		open := [3]bool{}
		rw := false
		n := 0
		for _, a := range seq {
			switch a {
			case aOpenRW:
				if n == 3 {
					return
				}
				if n == 0 {
					for i := range open {
						if !open[i] {
							open[i] = true
							break
						}
					}
					rw = true
					n = 1
				}
			case aOpenRO:
				if n == 3 {
					return
				}
				if !rw {
					for i := range open {
						if !open[i] {
							open[i] = true
							break
						}
					}
					n++
				}
			case aClose0, aClose1, aClose2:
				i := int(a - aClose0)
				if !open[i] {
					return
				}
				open[i] = false
				n--
				if n == 0 || rw {
					rw = false
				}
			case aPublish:
				if n == 0 {
					return
				}
			case aCorruptRW, aCorruptRO:
				if n > 0 {
					return
				}
			}
		}
	}
	dir := filepath.Join(cfg.Scratch, fmt.Sprintf("lk%d", code))
	defer os.RemoveAll(dir)
	opts := OpenOpts{Rollover: 120, Create: true, KeyIndex: code%2 == 0, TimeIdx: code%3 == 0}
	// seed the directory with two messages so that there is a head index to corrupt
	l0, err := kOpen(dir, opts)
	if err != nil {
		return
	}
	published := int64(0)
	pub := func(l klevdb.Log) error {
		_, err := kPublish(l, []klevdb.Message{{Key: []byte("k"), Value: []byte(fmt.Sprintf("v%d", published))}})
		if err == nil {
			published++
		}
		return err
	}
	pub(l0)
	pub(l0)
	kClose(l0)
	switch code % 3 {
	case 1:
		// a directory that was never opened for writing: segment files copied in (as Backup
		// produces it), no lock file yet
		os.Remove(filepath.Join(dir, ".lock"))
	case 2:
		if code%2 == 0 {
			// the same, produced by the package-level Backup
			bdir := dir + "-bk"
			if err := klevdb.Backup(dir, bdir); err == nil {
				os.RemoveAll(dir)
				os.Rename(bdir, dir)
			}
		}
	}
	opts.Create = false
	var slots [3]lockSlot
	nOpen, rwOpen := 0, false
	cleanup := func() {
		for i := range slots {
			if slots[i].l != nil {
				kClose(slots[i].l)
			}
		}
	}
	defer cleanup()
	var trace []string
	fail := func(sig, format string, a ...any) {
		rep.Report(Violation{Property: "C19", Sig: "lockmon|" + sig, What: fmt.Sprintf(format, a...), Replay: map[string]any{"sequence": trace, "code": code}})
	}
	state := func() string {
		switch {
		case rwOpen:
			return "rw-open"
		case nOpen > 0:
			return fmt.Sprintf("ro-open-%d", nOpen)
		}
		return "free"
	}
	free := func() int {
		for i := range slots {
			if slots[i].l == nil {
				return i
			}
		}
		return -1
	}
	cov.Add("lock.sequences", 1)
	for _, a := range seq {
		trace = append(trace, lockActNames[a])
		st := state()
		cov.Add("lock.action."+lockActNames[a], 1)
		cov.Add("evaluations", 1)
		switch a {
		case aOpenRW, aOpenRO:
			o := opts
			o.Readonly = a == aOpenRO
			l, err := kOpen(dir, o)
			want := (a == aOpenRW && nOpen == 0) || (a == aOpenRO && !rwOpen)
			if want && err != nil {
				fail(fmt.Sprintf("%s:in-%s:refused", lockActNames[a], st), "%s with lock state %s failed: %s (sequence %v)", lockActNames[a], st, errText(err), trace)
				return
			}
			if !want && err == nil {
				kClose(l)
				fail(fmt.Sprintf("%s:in-%s:admitted", lockActNames[a], st), "%s succeeded although the directory is %s (sequence %v)", lockActNames[a], st, trace)
				return
			}
			cov.Distinct("lock", fmt.Sprintf("%s|%s|ok=%v", st, lockActNames[a], err == nil))
			if err == nil {
				i := free()
				slots[i] = lockSlot{l, a == aOpenRW}
				nOpen++
				if a == aOpenRW {
					rwOpen = true
				}
				if a == aOpenRO {
					if nx, err := kNext(l); err != nil || nx != published {
						kClose(l)
						slots[i] = lockSlot{}
						fail("open-ro:nextoffset", "a read-only handle reports NextOffset=%d err=%v, %d messages were published", nx, err, published)
						return
					}
				}
			}
		case aClose0, aClose1, aClose2:
			i := int(a - aClose0)
			if err := kClose(slots[i].l); err != nil {
				fail("close:error", "Close failed: %s", errText(err))
				return
			}
			if slots[i].rw {
				rwOpen = false
			}
			slots[i] = lockSlot{}
			nOpen--
			cov.Distinct("lock", fmt.Sprintf("%s|%s", st, "close"))
		case aPublish:
			for i := range slots {
				if slots[i].l == nil {
					continue
				}
				err := pub(slots[i].l)
				if slots[i].rw && err != nil {
					fail("publish:writer-error", "Publish on the read-write handle failed: %s", errText(err))
					return
				}
				if !slots[i].rw && errClass(err) != "ErrReadonly" {
					fail("publish:ro:"+errClass(err), "Publish on a read-only handle: want ErrReadonly, got %s", errText(err))
					return
				}
			}
			cov.Distinct("lock", fmt.Sprintf("%s|publish", st))
		case aCorruptRW, aCorruptRO:
			// only while no handle is open: damage the newest index file so that Open fails after
			// it has taken the lock, then restore it; the next legal open must succeed
			segs, _, _ := listSegs(dir)
			if len(segs) == 0 {
				continue
			}
			_, idxName := ref.SegName(segs[len(segs)-1].Base)
			ipath := filepath.Join(dir, idxName)
			orig, rerr := os.ReadFile(ipath)
			if rerr != nil {
				continue
			}
			logName, _ := ref.SegName(segs[len(segs)-1].Base)
			lpath := filepath.Join(dir, logName)
			origLog, _ := os.ReadFile(lpath)
			tornLog := a == aCorruptRO && len(trace)%2 == 0 && len(origLog) > 20
			if tornLog {
				// a torn last record in the head log and an index that still lists it
				os.WriteFile(lpath, origLog[:len(origLog)-5], 0o600)
			} else {
				os.WriteFile(ipath, append([]byte{0xFF, 'k', 'l', 'e', 'v', 'i', 9, 0xFC}, orig[minInt(8, len(orig)):]...), 0o600)
			}
			o := opts
			if a == aCorruptRO {
				o.Readonly, o.Check = true, !tornLog
				o.Recover = tornLog
			}
			var before map[string][]byte
			if a == aCorruptRO {
				before = mustSnap(dir)
			}
			l, err := kOpen(dir, o)
			if before != nil {
				if err == nil {
					kClose(l)
					l = nil
				}
				after := mustSnap(dir)
				for n, b := range before {
					if strings.HasSuffix(n, ".log") && string(after[n]) != string(b) {
						os.WriteFile(lpath, origLog, 0o600)
						os.WriteFile(ipath, orig, 0o600)
						fail("open-ro:modified-log-file", "a read-only Open (Check=%v Recover=%v) of a directory with a damaged head changed log file %s (%d -> %d bytes)", o.Check, o.Recover, n, len(b), len(after[n]))
						return
					}
				}
				cov.Distinct("lock", fmt.Sprintf("%s|open-ro-damaged-head|recover=%v|err=%v", st, o.Recover, err != nil))
			}
			os.WriteFile(lpath, origLog, 0o600)
			os.WriteFile(ipath, orig, 0o600)
			if before != nil && err == nil {
				continue
			}
			if err == nil {
				kClose(l)
				continue // the damage did not make Open fail: nothing to learn here
			}
			cov.Distinct("lock", fmt.Sprintf("%s|%s|failed", st, lockActNames[a]))
			// the failed open must have released the lock
			l2, err := kOpen(dir, opts)
			if err != nil {
				fail(lockActNames[a]+":lock-not-released", "after an Open that failed (%s) the next Open failed too: %s", lockActNames[a], errText(err))
				return
			}
			kClose(l2)
		case aMissing:
			missing := filepath.Join(dir, "no-such-subdir")
			l, err := kOpen(missing, OpenOpts{Rollover: 100})
			if err == nil {
				kClose(l)
				fail("open-missing:admitted", "Open of a missing directory without CreateDirs succeeded")
				return
			}
			if _, serr := os.Stat(missing); serr == nil {
				fail("open-missing:created", "a failed Open of a missing directory created it")
				return
			}
			cov.Distinct("lock", fmt.Sprintf("%s|open-missing-dir|failed", st))
		}
	}
}

// ---------------------------------------------------------------------------------------
// cross-process: a child process holds the handle

func holdLock(args []string) int {
	if len(args) < 2 {
		return 2
	}
	dir, mode := args[0], args[1]
	l, err := klevdb.Open(dir, klevdb.Options{Readonly: mode == "ro", Rollover: 120})
	if err != nil {
		fmt.Println("open-failed:", err)
		return 1
	}
	fmt.Println("ready")
	rd := bufio.NewReader(os.Stdin)
	line, _ := rd.ReadString('\n')
	if strings.TrimSpace(line) == "close" {
		l.Close()
		fmt.Println("closed")
		rd.ReadString('\n')
	}
	// "die" or EOF: exit without Close, the kernel drops the lock
	return 0
}

// runROConcurrent: several read-only handles may be open at once - normally in different processes -
// and each answers like a read-write handle would, also when their first queries run at the same
// time on a log whose index files are missing (every handle then rebuilds them).
func runROConcurrent(cfg *RunCfg, rep *Reporter, cov *Cov) {
	rounds := 12
	if cfg.Tier == "thorough" {
		rounds = 120
	}
	for k := 0; k < rounds; k++ {
		r := NewRand(cfg.Seed, 1919, int64(k))
		icfg := allCfgs[k%4]
		dir := filepath.Join(cfg.Scratch, fmt.Sprintf("roc%d", k))
		o := OpenOpts{KeyIndex: icfg.Keys, TimeIdx: icfg.Times, Rollover: pick(r, []int64{1 << 20, 20000}), Create: true, NewVer: pick(r, []int{2, 2, 1})}
		l0, err := kOpen(dir, o)
		if err != nil {
			continue
		}
		n := 3000 + r.Intn(6000)
		msgs := make([]klevdb.Message, n)
		for i := range msgs {
			msgs[i] = klevdb.Message{Key: []byte(fmt.Sprintf("k%d", i%50)), Value: []byte(fmt.Sprintf("v%d", i)), Time: time.UnixMicro(baseTime + int64(i)).UTC()}
		}
		kPublish(l0, msgs)
		kClose(l0)
		removeIndexFiles(dir, nil, true)
		o.Readonly, o.Create = true, false
		nh := 2 + k%2
		var hs []klevdb.Log
		for i := 0; i < nh; i++ {
			h, err := kOpen(dir, o)
			if err != nil {
				rep.Report(Violation{Property: "C19", Sig: "lockmon|ro-concurrent:open-error:" + errClass(err), What: fmt.Sprintf("read-only handle %d of %d could not be opened: %s", i+1, nh, errText(err)), Replay: map[string]any{"round": k}})
				break
			}
			hs = append(hs, h)
		}
		offs := []int64{int64(r.Intn(n)), int64(n - 1), 0}
		type res struct {
			off int64
			m   klevdb.Message
			err error
		}
		out := make([][]res, len(hs))
		var wg sync.WaitGroup
		start := make(chan struct{})
		for i, h := range hs {
			wg.Add(1)
			go func() {
				defer wg.Done()
				<-start
				for _, off := range offs {
					m, err := kGet(h, off)
					out[i] = append(out[i], res{off, m, err})
				}
			}()
		}
		close(start)
		wg.Wait()
		for _, h := range hs {
			kClose(h)
		}
		cov.Add("evaluations", int64(len(hs)))
		cov.Add("ro_concurrent_handles", int64(len(hs)))
		bad := false
		for i := range out {
			for _, x := range out[i] {
				if bad {
					break
				}
				switch {
				case x.err != nil:
					bad = true
					rep.Report(Violation{Property: "C19", Sig: "lockmon|ro-concurrent:get-error:" + errClass(x.err), What: fmt.Sprintf("%d read-only handles on a log without index files made their first queries at the same time: Get(%d) on handle %d failed: %s", len(hs), x.off, i+1, errText(x.err)), Replay: map[string]any{"round": k, "handles": len(hs), "messages": n}})
				case x.m.Offset != x.off || string(x.m.Value) != fmt.Sprintf("v%d", x.off):
					bad = true
					rep.Report(Violation{Property: "C19", Sig: "lockmon|ro-concurrent:get-wrong", What: fmt.Sprintf("%d read-only handles on a log without index files made their first queries at the same time: Get(%d) on handle %d returned offset %d value %q", len(hs), x.off, i+1, x.m.Offset, x.m.Value), Replay: map[string]any{"round": k}})
				}
			}
		}
		if !bad {
			// what the handles left behind is a correct index: a fresh handle reads everything
			h, err := kOpen(dir, o)
			if err == nil {
				got, _, f := scanLog(h, 512, n)
				kClose(h)
				if f != nil || len(got) != n {
					rep.Report(Violation{Property: "C19", Sig: "lockmon|ro-concurrent:index-left-behind", What: fmt.Sprintf("after %d read-only handles rebuilt the index files at the same time a new handle reads %d of %d messages (%v)", len(hs), len(got), n, f), Replay: map[string]any{"round": k}})
				}
			}
		}
		cov.Distinct("lock", fmt.Sprintf("ro-concurrent|%s|handles=%d", icfg, len(hs)))
		os.RemoveAll(dir)
	}
}

// runROOptionMix: "while it is open read-only only further read-only opens succeed" - whatever other
// options the read-only opens carry (Check, Recover, both, AutoSync, eager migration): two read-only
// handles with every pair of option sets share the directory, a writer is refused meanwhile.
func runROOptionMix(cfg *RunCfg, rep *Reporter, cov *Cov) {
	type optset struct {
		name string
		o    OpenOpts
	}
	sets := []optset{{"plain", OpenOpts{}}, {"check", OpenOpts{Check: true}}, {"recover", OpenOpts{Recover: true}}, {"check+recover", OpenOpts{Check: true, Recover: true}}, {"autosync", OpenOpts{AutoSync: true}}, {"eager", OpenOpts{Eager: true, NewVer: 2}}}
	dir := filepath.Join(cfg.Scratch, "romix")
	l0, err := kOpen(dir, OpenOpts{Rollover: 150, Create: true, KeyIndex: true})
	if err != nil {
		return
	}
	for i := 0; i < 6; i++ {
		kPublish(l0, []klevdb.Message{{Key: []byte("k"), Value: []byte(fmt.Sprintf("value-%d", i))}})
	}
	kClose(l0)
	for _, a := range sets {
		for _, b := range sets {
			oa, ob := a.o, b.o
			oa.Readonly, oa.KeyIndex, oa.Rollover = true, true, 150
			ob.Readonly, ob.KeyIndex, ob.Rollover = true, true, 150
			cov.Add("evaluations", 1)
			la, err := kOpen(dir, oa)
			if err != nil {
				rep.Report(Violation{Property: "C19", Sig: "lockmon|ro-option-mix:first-open:" + a.name + ":" + errClass(err), What: fmt.Sprintf("read-only Open(%s) of an unlocked directory failed: %s", a.name, errText(err)), Replay: map[string]any{"first": a.name}})
				continue
			}
			lb, err := kOpen(dir, ob)
			if err != nil {
				rep.Report(Violation{Property: "C19", Sig: "lockmon|ro-option-mix:second-refused:" + a.name + "+" + b.name, What: fmt.Sprintf("while a read-only handle opened with (%s) holds the directory, a read-only Open with (%s) fails: %s", a.name, b.name, errText(err)), Replay: map[string]any{"first": a.name, "second": b.name}})
			} else {
				if lw, err := kOpen(dir, OpenOpts{Rollover: 150, KeyIndex: true}); err == nil {
					kClose(lw)
					rep.Report(Violation{Property: "C19", Sig: "lockmon|ro-option-mix:writer-admitted", What: fmt.Sprintf("a read-write Open succeeded while two read-only handles (%s, %s) were open", a.name, b.name), Replay: map[string]any{"first": a.name, "second": b.name}})
				}
				kClose(lb)
			}
			kClose(la)
			cov.Distinct("lock", "ro-option-mix|"+a.name+"|"+b.name)
		}
	}
	os.RemoveAll(dir)
}

// runCloseVsDelete: once Close of the writer has returned, the directory belongs to whoever opens it
// next: a Delete that was in progress on the closed handle (held at a pause point between its
// rewrite and its swap) must not touch the directory after that. Close may wait for it.
func runCloseVsDelete(cfg *RunCfg, rep *Reporter, cov *Cov) {
	points := []string{"delete.afterRewrite", "delete.afterFind", "delete.afterSyncUnlock"}
	for k := 0; k < 6; k++ {
		point := points[k%3]
		dir := filepath.Join(cfg.Scratch, fmt.Sprintf("cvd%d", k))
		l, err := kOpen(dir, OpenOpts{Rollover: 150, Create: true, KeyIndex: true})
		if err != nil {
			continue
		}
		for i := 0; i < 8; i++ {
			kPublish(l, []klevdb.Message{{Key: []byte("k"), Value: []byte(fmt.Sprintf("value-%02d-0123456789", i))}})
		}
		target := int64(0) // first message of the oldest segment: the rewrite is renamed, the old files removed
		if k >= 3 {
			target = 7 // the head
		}
		hm := &hookMode{dyn: map[int64]*hookClient{}}
		installHook(hm)
		hc := &hookClient{id: 1, points: map[string]int{}, hits: map[string]int{}, arrived: make(chan string, 1), release: make(chan struct{}), armPoint: point, armNth: 1}
		dDone := make(chan error, 1)
		go func() {
			hm.mu.Lock()
			hm.dyn[goid()] = hc
			hm.mu.Unlock()
			_, _, err := kDelete(l, map[int64]struct{}{target: {}})
			dDone <- err
		}()
		held := false
		select {
		case <-hc.arrived:
			held = true
		case err := <-dDone:
			dDone <- err
		case <-time.After(20 * time.Second):
		}
		cDone := make(chan error, 1)
		gch := make(chan int64, 1)
		go func() {
			gch <- goid()
			cDone <- kClose(l)
		}()
		cGid := <-gch
		how := "returned-while-delete-held"
		closedEarly := false
		var atClose map[string][]byte
		if held {
		wait:
			for spin := 0; spin < 20000; spin++ {
				select {
				case err := <-cDone:
					cDone <- err
					closedEarly = true
					break wait
				default:
				}
				if spin%20 == 19 {
					if ws, ok := waitStates()[cGid]; ok && isBlockedState(ws[0]) {
						how = "waited-for-the-delete"
						break wait
					}
				}
				time.Sleep(50 * time.Microsecond)
			}
			if closedEarly {
				atClose, _ = dirSnapshot(dir)
			}
			close(hc.release)
		}
		var cerr error
		select {
		case cerr = <-cDone:
		case <-time.After(30 * time.Second):
			installHook(nil)
			rep.Report(Violation{Property: "C19", Sig: "lockmon|close-vs-delete:close-stuck", What: "Close never returned after the Delete that was in progress finished", Replay: map[string]any{"point": point}})
			continue
		}
		select {
		case <-dDone:
		case <-time.After(30 * time.Second):
		}
		installHook(nil)
		cov.Add("evaluations", 1)
		cov.Distinct("lock", fmt.Sprintf("close-vs-delete|%s|%s", point, how))
		_ = cerr
		if closedEarly {
			after, _ := dirSnapshot(dir)
			if ok, why := snapEqual(atClose, after); !ok {
				rep.Report(Violation{Property: "C19", Sig: "lockmon|close-vs-delete:writes-after-close", What: fmt.Sprintf("Close returned while a Delete on the same handle was in progress (held at %s); after Close had returned - the directory lock is free, another process may own the directory - that Delete went on and changed the directory: %s", point, why), Replay: map[string]any{"point": point, "target_offset": target}})
			}
		}
		os.RemoveAll(dir)
	}
}

// runROCloseVsQuery: "the lock is released by Close" also when another goroutine is inside a query on
// the same read-only handle: the query is held at a pause point (index loaded / log mapped and
// counted as in use), Close is issued, the query is released. Close must return nil (it may wait for
// the query) and the directory must open for writing afterwards.
func runROCloseVsQuery(cfg *RunCfg, rep *Reporter, cov *Cov) {
	points := []string{"reader.afterIndex", "reader.afterGetMessages"}
	for k := 0; k < 8; k++ {
		point := points[k%2]
		dir := filepath.Join(cfg.Scratch, fmt.Sprintf("rocq%d", k))
		l0, err := kOpen(dir, OpenOpts{Rollover: []int64{1 << 20, 150}[k/2%2], Create: true, KeyIndex: true})
		if err != nil {
			continue
		}
		for i := 0; i < 6; i++ {
			kPublish(l0, []klevdb.Message{{Key: []byte("k"), Value: []byte(fmt.Sprintf("value-%d", i))}})
		}
		kClose(l0)
		ro, err := kOpen(dir, OpenOpts{Readonly: true, KeyIndex: true})
		if err != nil {
			continue
		}
		hm := &hookMode{dyn: map[int64]*hookClient{}}
		installHook(hm)
		hc := &hookClient{id: 1, points: map[string]int{}, hits: map[string]int{}, arrived: make(chan string, 1), release: make(chan struct{}), armPoint: point, armNth: 1}
		qDone := make(chan error, 1)
		go func() {
			hm.mu.Lock()
			hm.dyn[goid()] = hc
			hm.mu.Unlock()
			_, _, err := kConsume(ro, 0, 2)
			qDone <- err
		}()
		held := false
		select {
		case <-hc.arrived:
			held = true
		case err := <-qDone:
			qDone <- err
		case <-time.After(20 * time.Second):
		}
		cDone := make(chan error, 1)
		var cGid int64
		gch := make(chan int64, 1)
		go func() {
			gch <- goid()
			cDone <- kClose(ro)
		}()
		cGid = <-gch
		how := "returned-while-query-held"
		var cerr error
		closed := false
		if held {
		wait:
			for spin := 0; spin < 20000; spin++ {
				select {
				case cerr = <-cDone:
					closed = true
					break wait
				default:
				}
				if spin%20 == 19 {
					if ws, ok := waitStates()[cGid]; ok && isBlockedState(ws[0]) {
						how = "waited-for-the-query"
						break wait
					}
				}
				time.Sleep(50 * time.Microsecond)
			}
			close(hc.release)
		}
		if !closed {
			select {
			case cerr = <-cDone:
			case <-time.After(30 * time.Second):
				installHook(nil)
				rep.Report(Violation{Property: "C19", Sig: "lockmon|ro-close-vs-query:close-stuck", What: "Close of a read-only handle never returned after the query that was in progress finished", Replay: map[string]any{"point": point}})
				continue
			}
		}
		select {
		case <-qDone:
		case <-time.After(30 * time.Second):
		}
		installHook(nil)
		cov.Add("evaluations", 1)
		if !held {
			cov.Add("ro_close_vs_query.window_unreached", 1)
		}
		cov.Distinct("lock", fmt.Sprintf("ro-close-vs-query|%s|%s", point, how))
		if cerr != nil {
			rep.Report(Violation{Property: "C19", Sig: "lockmon|ro-close-vs-query:close-error", What: fmt.Sprintf("Close of a read-only handle failed (%s) because a Consume on the same handle was in progress (held at %s): the directory lock is not released", errText(cerr), point), Replay: map[string]any{"point": point, "close": how}})
		}
		l2, err := kOpen(dir, OpenOpts{Rollover: 1 << 20, KeyIndex: true})
		if err != nil {
			if cerr == nil {
				rep.Report(Violation{Property: "C19", Sig: "lockmon|ro-close-vs-query:lock-not-released", What: fmt.Sprintf("after Close of a read-only handle returned nil (a Consume had been in progress, held at %s) the directory cannot be opened for writing: %s", point, errText(err)), Replay: map[string]any{"point": point, "close": how}})
			}
		} else {
			kClose(l2)
		}
		os.RemoveAll(dir)
	}
}

// runBlockingOpenFails: the blocking constructors are Opens too - when they fail after the inner
// Open succeeded (the wrapper cannot read NextOffset: read-only handle, head index unreadable) the
// directory lock must be released.
func runBlockingOpenFails(cfg *RunCfg, rep *Reporter, cov *Cov) {
	for k, typed := range []bool{false, true} {
		dir := filepath.Join(cfg.Scratch, fmt.Sprintf("bof%d", k))
		l0, err := kOpen(dir, OpenOpts{Rollover: 1 << 20, Create: true, KeyIndex: true})
		if err != nil {
			continue
		}
		kPublish(l0, []klevdb.Message{{Key: []byte("k"), Value: []byte("v")}, {Key: []byte("k2"), Value: []byte("v2")}})
		kClose(l0)
		_, idx := ref.SegName(0)
		ip := filepath.Join(dir, idx)
		fi, err := os.Stat(ip)
		if err != nil {
			continue
		}
		os.Truncate(ip, fi.Size()-3) // not a whole number of items: unreadable
		opts := klevdb.Options{Readonly: true, KeyIndex: true}
		var oerr error
		gerr := guard(func() error {
			if typed {
				l, e := klevdb.OpenTBlocking[string, string](dir, opts, klevdb.StringCodec, klevdb.StringCodec)
				if e == nil {
					l.Close()
				}
				oerr = e
			} else {
				l, e := klevdb.OpenBlocking(dir, opts)
				if e == nil {
					l.Close()
				}
				oerr = e
			}
			return nil
		})
		cov.Add("evaluations", 1)
		if gerr != nil {
			rep.Report(Violation{Property: "C19", Sig: "lockmon|blocking-open:panic", What: "a blocking Open panicked: " + errText(gerr), Replay: map[string]any{"typed": typed}})
			continue
		}
		outcome := "opened"
		if oerr != nil {
			outcome = "failed"
		}
		cov.Distinct("lock", fmt.Sprintf("blocking-open-ro|corrupt-head-index|typed=%v|%s", typed, outcome))
		// whatever the outcome, nothing holds the directory now
		l2, err := kOpen(dir, OpenOpts{Rollover: 1 << 20, KeyIndex: true, Recover: true})
		if err != nil && strings.Contains(errText(err), "lock") {
			rep.Report(Violation{Property: "C19", Sig: "lockmon|blocking-open-failed:lock-not-released", What: fmt.Sprintf("after a read-only blocking Open that %s (%s) the directory is still locked: %s", outcome, errText(oerr), errText(err)), Replay: map[string]any{"typed": typed}})
		}
		if err == nil {
			kClose(l2)
		}
		os.RemoveAll(dir)
	}
}

// runROEmptyDir: a read-only handle on a directory that holds no segment files at all (never opened
// for writing) answers like a read-write handle on an empty log - also after GC(0), after which
// there is no file its (synthetic) segment could be loaded from.
func runROEmptyDir(cfg *RunCfg, rep *Reporter, cov *Cov) {
	k := 0
	for _, icfg := range allCfgs {
		for _, gcs := range []int{0, 1, 2} {
			k++
			rwDir := filepath.Join(cfg.Scratch, fmt.Sprintf("roe-rw%d", k))
			roDir := filepath.Join(cfg.Scratch, fmt.Sprintf("roe-ro%d", k))
			os.MkdirAll(roDir, 0o700)
			o := OpenOpts{KeyIndex: icfg.Keys, TimeIdx: icfg.Times, Rollover: 200, Create: true}
			oo := ObsOpts{Keys: [][]byte{[]byte("a"), nil}, Times: []int64{0, baseTime}, MaxOff: 2}
			rw, err := kOpen(rwDir, o)
			if err != nil {
				rep.Inconclusive("ro-empty: reference open failed")
				continue
			}
			for g := 0; g < gcs; g++ {
				kGC(rw, 0)
			}
			want := observe(rw, oo)
			kClose(rw)
			o.Readonly, o.Create = true, false
			ro, err := kOpen(roDir, o)
			cov.Add("evaluations", 1)
			if err != nil {
				rep.Report(Violation{Property: "C19", Sig: "lockmon|ro-empty-dir:open-error:" + errClass(err), What: "read-only Open of an existing directory without segment files failed: " + errText(err), Replay: map[string]any{"cfg": icfg.String()}})
				continue
			}
			var got []string
			for g := 0; g <= gcs; g++ {
				if g > 0 {
					if err := kGC(ro, 0); err != nil {
						got = append(got, "GC => "+errLine(err))
					}
				}
				got = observe(ro, oo)
			}
			// Sync belongs to the calls of a read-only handle too: it has nothing to create here
			if nx, err := kSync(ro); err != nil || nx != 0 {
				rep.Report(Violation{Property: "C19", Sig: "lockmon|ro-empty-dir:sync:" + errClass(err), What: fmt.Sprintf("Sync on a read-only handle of a directory without segment files: want (0, nil), got (%d, %s)", nx, errText(err)), Replay: map[string]any{"cfg": icfg.String()}})
			}
			if again := observe(ro, oo); strings.Join(again, "\n") != strings.Join(got, "\n") {
				rep.Report(Violation{Property: "C19", Sig: "lockmon|ro-empty-dir:answers-change-after-sync", What: "a read-only handle on a directory without segment files answers differently after Sync", Replay: map[string]any{"cfg": icfg.String()}})
			}
			kClose(ro)
			// the reference handle created its (empty) first segment, the read-only one has no file at
			// all: the segment count of Stat differs by construction
			noStat := func(in []string) []string {
				var out []string
				for _, ln := range in {
					if !strings.HasPrefix(ln, "Stat") {
						out = append(out, ln)
					}
				}
				return out
			}
			want, got = noStat(want), noStat(got)
			if why, diff := diffObs(want, got); diff {
				rep.Report(Violation{Property: "C19", Sig: fmt.Sprintf("lockmon|ro-empty-dir:answers-differ:%s:gc=%v", callOf(strings.Trim(strings.SplitN(why, " vs ", 2)[0], `"`)), gcs > 0), What: fmt.Sprintf("a read-only handle on a directory without segment files answers differently from a read-write handle on an empty log (GC(0) calls before the queries: %d): %s", gcs, why), Replay: map[string]any{"cfg": icfg.String(), "gc_calls": gcs}})
			}
			if ents, _ := os.ReadDir(roDir); len(ents) > 1 || (len(ents) == 1 && ents[0].Name() != ".lock") {
				rep.Report(Violation{Property: "C19", Sig: "lockmon|ro-empty-dir:created-files", What: "a read-only handle created files in an empty directory", Replay: map[string]any{"cfg": icfg.String()}})
			}
			cov.Distinct("lock", fmt.Sprintf("ro-empty-dir|%s|gc=%d", icfg, gcs))
			os.RemoveAll(rwDir)
			os.RemoveAll(roDir)
		}
	}
}

func runLockXProc(cfg *RunCfg, rep *Reporter, cov *Cov) {
	for ci, c := range []struct{ child, end string }{{"rw", "close"}, {"rw", "die"}, {"ro", "close"}, {"ro", "die"}} {
		dir := filepath.Join(cfg.Scratch, fmt.Sprintf("xp%d", ci))
		l0, err := kOpen(dir, OpenOpts{Rollover: 120, Create: true})
		if err != nil {
			continue
		}
		kPublish(l0, []klevdb.Message{{Key: []byte("k"), Value: []byte("v")}})
		kClose(l0)
		cmd := exec.Command(cfg.Self, "hold-lock", dir, c.child)
		stdin, _ := cmd.StdinPipe()
		stdout, _ := cmd.StdoutPipe()
		if err := cmd.Start(); err != nil {
			rep.Inconclusive("cross-process child did not start")
			continue
		}
		rd := bufio.NewReader(stdout)
		line, _ := rd.ReadString('\n')
		if strings.TrimSpace(line) != "ready" {
			rep.Inconclusive("cross-process child not ready: " + line)
			cmd.Process.Kill()
			cmd.Wait()
			continue
		}
		fail := func(sig, format string, a ...any) {
			rep.Report(Violation{Property: "C19", Sig: "lockmon|xproc:" + sig, What: fmt.Sprintf(format, a...), Replay: map[string]any{"child": c.child, "end": c.end}})
		}
		try := func(ro bool) error {
			l, err := kOpen(dir, OpenOpts{Rollover: 120, Readonly: ro})
			if err == nil {
				kClose(l)
			}
			return err
		}
		cov.Add("evaluations", 4)
		if err := try(false); err == nil {
			fail("rw-admitted:child-"+c.child, "read-write Open succeeded while another process holds the directory %s", c.child)
		}
		if err := try(true); (err == nil) != (c.child == "ro") {
			fail("ro:child-"+c.child, "read-only Open err=%v while another process holds the directory %s", err, c.child)
		}
		if c.end == "close" {
			fmt.Fprintln(stdin, "close")
			rd.ReadString('\n')
		} else {
			cmd.Process.Kill()
			cmd.Wait()
		}
		if err := try(false); err != nil {
			fail("not-released:"+c.end, "after the holder process ended (%s) a read-write Open failed: %s", c.end, errText(err))
		}
		if c.end == "close" {
			fmt.Fprintln(stdin, "exit")
			stdin.Close()
			cmd.Wait()
		}
		cov.Add("lock.xproc", 1)
		cov.Distinct("lock", fmt.Sprintf("xproc|child-%s|%s", c.child, c.end))
		os.RemoveAll(dir)
	}
}
