package main

import (
	"context"
	"errors"
	"fmt"
	"io/fs"
	"os"
	"path/filepath"
	"runtime/debug"
	"sort"
	"strconv"
	"strings"
	"time"

	"github.com/klev-dev/klevdb"
	"github.com/klev-dev/klevdb/pkg/index"
	"github.com/klev-dev/klevdb/pkg/message"

	"verifharness/ref"
)

// ---------------------------------------------------------------------------------------
// conversions

func toRef(m klevdb.Message) ref.Msg {
	return ref.Msg{Offset: m.Offset, T: m.Time.UnixMicro(), Key: m.Key, Value: m.Value}
}

func toRefs(ms []klevdb.Message) []ref.Msg {
	out := make([]ref.Msg, len(ms))
	for i, m := range ms {
		out[i] = toRef(m)
	}
	return out
}

func fromRef(m ref.Msg) klevdb.Message {
	return klevdb.Message{Offset: m.Offset, Time: time.UnixMicro(m.T).UTC(), Key: m.Key, Value: m.Value}
}

// ---------------------------------------------------------------------------------------
// error classes

func errClass(err error) string {
	switch {
	case err == nil:
		return "nil"
	case errors.Is(err, klevdb.ErrNotFound):
		return "ErrNotFound"
	case errors.Is(err, klevdb.ErrInvalidOffset):
		return "ErrInvalidOffset"
	case errors.Is(err, klevdb.ErrNoIndex):
		return "ErrNoIndex"
	case errors.Is(err, klevdb.ErrReadonly):
		return "ErrReadonly"
	case errors.Is(err, message.ErrCorrupted):
		return "log-corrupted"
	case errors.Is(err, index.ErrCorrupted):
		return "index-corrupted"
	case errors.Is(err, fs.ErrNotExist):
		return "ENOENT"
	case errors.Is(err, context.Canceled):
		return "ctx-canceled"
	case errors.Is(err, context.DeadlineExceeded):
		return "ctx-deadline"
	}
	var pe *PanicErr
	if errors.As(err, &pe) {
		return "panic"
	}
	return "other"
}

func errText(err error) string {
	if err == nil {
		return ""
	}
	s := err.Error()
	if len(s) > 300 {
		s = s[:300]
	}
	return s
}

// ---------------------------------------------------------------------------------------
// panic guard

type PanicErr struct {
	Val   any
	Stack string
}

func (p *PanicErr) Error() string { return fmt.Sprintf("panic: %v", p.Val) }

// guard runs fn and converts a panic into a *PanicErr.
func guard(fn func() error) (err error) {
	defer func() {
		if r := recover(); r != nil {
			st := string(debug.Stack())
			if len(st) > 3000 {
				st = st[:3000]
			}
			err = &PanicErr{r, st}
		}
	}()
	return fn()
}

func isPanic(err error) bool {
	var pe *PanicErr
	return errors.As(err, &pe)
}

// panicFrame returns a short description of the klevdb frame that panicked.
func panicFrame(err error) string {
	var pe *PanicErr
	if !errors.As(err, &pe) {
		return ""
	}
	for _, ln := range strings.Split(pe.Stack, "\n") {
		ln = strings.TrimSpace(ln)
		if strings.HasPrefix(ln, "github.com/klev-dev/klevdb") {
			if i := strings.LastIndex(ln, "("); i > 0 {
				ln = ln[:i]
			}
			return strings.TrimPrefix(ln, "github.com/klev-dev/")
		}
	}
	return "?"
}

// ---------------------------------------------------------------------------------------
// guarded API calls

type OpenOpts struct {
	Readonly bool   `json:"ro,omitempty"`
	KeyIndex bool   `json:"keys"`
	TimeIdx  bool   `json:"times"`
	AutoSync bool   `json:"autosync,omitempty"`
	Rollover int64  `json:"rollover"`
	Check    bool   `json:"check,omitempty"`
	Recover  bool   `json:"recover,omitempty"`
	NewVer   int    `json:"newver"` // 0 default(V2), 1, 2
	KeepVer  bool   `json:"keepver,omitempty"`
	Eager    bool   `json:"eager,omitempty"`
	Create   bool   `json:"create,omitempty"`
	Note     string `json:"note,omitempty"`
	Typed    bool   `json:"typed,omitempty"` // drive the log through klevdb.OpenT with the identity codec (typed.go)
}

func (o OpenOpts) K() klevdb.Options {
	opts := klevdb.Options{
		CreateDirs: o.Create, Readonly: o.Readonly, KeyIndex: o.KeyIndex, TimeIndex: o.TimeIdx,
		AutoSync: o.AutoSync, Rollover: o.Rollover, Check: o.Check, Recover: o.Recover,
	}
	switch o.NewVer {
	case 1:
		opts.Version.NewSegmentsVersion = klevdb.V1
	case 2:
		opts.Version.NewSegmentsVersion = klevdb.V2
	}
	opts.Version.KeepRewriteVersion = o.KeepVer
	opts.Version.EagerVersionMigrate = o.Eager
	return opts
}

func (o OpenOpts) Cfg() ref.IndexCfg { return ref.IndexCfg{Times: o.TimeIdx, Keys: o.KeyIndex} }

// EffVer is the version new segments get.
func (o OpenOpts) EffVer() ref.Version {
	if o.NewVer == 1 {
		return ref.V1
	}
	return ref.V2
}

func kOpen(dir string, o OpenOpts) (l klevdb.Log, err error) {
	err = guard(func() error {
		var e error
		if o.Typed {
			l, e = openTyped(dir, o.K())
		} else {
			l, e = klevdb.Open(dir, o.K())
		}
		return e
	})
	return
}

func kPublish(l klevdb.Log, msgs []klevdb.Message) (next int64, err error) {
	err = guard(func() error {
		var e error
		next, e = l.Publish(msgs)
		return e
	})
	return
}

func kNext(l klevdb.Log) (next int64, err error) {
	err = guard(func() error {
		var e error
		next, e = l.NextOffset()
		return e
	})
	return
}

func kSync(l klevdb.Log) (next int64, err error) {
	err = guard(func() error {
		var e error
		next, e = l.Sync()
		return e
	})
	return
}

func kConsume(l klevdb.Log, off, max int64) (next int64, msgs []klevdb.Message, err error) {
	err = guard(func() error {
		var e error
		next, msgs, e = l.Consume(off, max)
		return e
	})
	return
}

func kConsumeByKey(l klevdb.Log, key []byte, off, max int64) (next int64, msgs []klevdb.Message, err error) {
	err = guard(func() error {
		var e error
		next, msgs, e = l.ConsumeByKey(key, off, max)
		return e
	})
	return
}

func kGet(l klevdb.Log, off int64) (m klevdb.Message, err error) {
	err = guard(func() error {
		var e error
		m, e = l.Get(off)
		return e
	})
	return
}

func kGetByKey(l klevdb.Log, key []byte) (m klevdb.Message, err error) {
	err = guard(func() error {
		var e error
		m, e = l.GetByKey(key)
		return e
	})
	return
}

func kOffsetByKey(l klevdb.Log, key []byte) (off int64, err error) {
	err = guard(func() error {
		var e error
		off, e = l.OffsetByKey(key)
		return e
	})
	return
}

func kGetByTime(l klevdb.Log, t int64) (m klevdb.Message, err error) {
	err = guard(func() error {
		var e error
		m, e = l.GetByTime(time.UnixMicro(t).UTC())
		return e
	})
	return
}

func kOffsetByTime(l klevdb.Log, t int64) (off int64, mt int64, err error) {
	err = guard(func() error {
		o, tt, e := l.OffsetByTime(time.UnixMicro(t).UTC())
		off = o
		if e == nil {
			mt = tt.UnixMicro()
		}
		return e
	})
	return
}

func kDelete(l klevdb.Log, offs map[int64]struct{}) (del []klevdb.Message, size int64, err error) {
	err = guard(func() error {
		var e error
		del, size, e = l.Delete(offs)
		return e
	})
	return
}

func kStat(l klevdb.Log) (st klevdb.Stats, err error) {
	err = guard(func() error {
		var e error
		st, e = l.Stat()
		return e
	})
	return
}

func kGC(l klevdb.Log, d time.Duration) error {
	return guard(func() error { return l.GC(d) })
}

func kClose(l klevdb.Log) error {
	return guard(func() error { return l.Close() })
}

func kBackup(l klevdb.Log, dir string) error {
	return guard(func() error { return l.Backup(dir) })
}

// ---------------------------------------------------------------------------------------
// directory helpers (quiescent-point observations of the files)

type SegFile struct {
	Base     int64
	LogName  string
	LogSize  int64
	HasIndex bool
	IdxSize  int64
}

// listSegs lists the segments of a directory by *.log file name, ordered by base offset.
func listSegs(dir string) ([]SegFile, []string, error) {
	ents, err := os.ReadDir(dir)
	if err != nil {
		return nil, nil, err
	}
	var segs []SegFile
	var other []string
	idx := map[string]int64{}
	for _, e := range ents {
		n := e.Name()
		info, ierr := e.Info()
		var sz int64
		if ierr == nil {
			sz = info.Size()
		}
		switch {
		case strings.HasSuffix(n, ".log"):
			b, perr := strconv.ParseInt(strings.TrimSuffix(n, ".log"), 10, 64)
			if perr != nil {
				other = append(other, n)
				continue
			}
			segs = append(segs, SegFile{Base: b, LogName: n, LogSize: sz})
		case strings.HasSuffix(n, ".index"):
			idx[strings.TrimSuffix(n, ".index")] = sz
		case n == ".lock":
		default:
			other = append(other, n)
		}
	}
	sort.Slice(segs, func(i, j int) bool { return segs[i].Base < segs[j].Base })
	for i := range segs {
		if sz, ok := idx[strings.TrimSuffix(segs[i].LogName, ".log")]; ok {
			segs[i].HasIndex = true
			segs[i].IdxSize = sz
			delete(idx, strings.TrimSuffix(segs[i].LogName, ".log"))
		}
	}
	for n := range idx {
		other = append(other, n+".index")
	}
	sort.Strings(other)
	return segs, other, nil
}

// dirSnapshot reads every regular file (except .lock) into memory.
func dirSnapshot(dir string) (map[string][]byte, error) {
	ents, err := os.ReadDir(dir)
	if err != nil {
		return nil, err
	}
	out := map[string][]byte{}
	for _, e := range ents {
		if e.IsDir() || e.Name() == ".lock" {
			continue
		}
		b, err := os.ReadFile(filepath.Join(dir, e.Name()))
		if err != nil {
			return nil, err
		}
		out[e.Name()] = b
	}
	return out, nil
}

func writeSnapshot(dir string, snap map[string][]byte) error {
	if err := os.MkdirAll(dir, 0o700); err != nil {
		return err
	}
	for n, b := range snap {
		if err := os.WriteFile(filepath.Join(dir, n), b, 0o600); err != nil {
			return err
		}
	}
	return nil
}

func snapEqual(a, b map[string][]byte) (bool, string) {
	for n, x := range a {
		y, ok := b[n]
		if !ok {
			return false, "missing " + n
		}
		if string(x) != string(y) {
			return false, fmt.Sprintf("%s differs (%d vs %d bytes)", n, len(x), len(y))
		}
	}
	for n := range b {
		if _, ok := a[n]; !ok {
			return false, "extra " + n
		}
	}
	return true, ""
}

func copyDir(src, dst string) error {
	snap, err := dirSnapshot(src)
	if err != nil {
		return err
	}
	return writeSnapshot(dst, snap)
}

func dirListing(dir string) []string {
	ents, _ := os.ReadDir(dir)
	var out []string
	for _, e := range ents {
		if e.Name() == ".lock" {
			continue
		}
		var sz int64
		if info, err := e.Info(); err == nil {
			sz = info.Size()
		}
		out = append(out, fmt.Sprintf("%s:%d", e.Name(), sz))
	}
	return out
}
