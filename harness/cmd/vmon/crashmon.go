package main

import (
	"bytes"
	"encoding/json"
	"fmt"
	"os"
	"os/exec"
	"path/filepath"
	"regexp"
	"sort"
	"strconv"
	"strings"
	"sync"
	"sync/atomic"

	"github.com/klev-dev/klevdb"

	"verifharness/fstrace"
	"verifharness/ref"
)

// crashmon: syscall-trace crash (C05) and power-loss (C06) monitor.

func init() {
	engines["crashmon"] = runCrashmon
	props["C05"] = propInfo{Engine: "crashmon", Level: "fault_enumeration",
		Rule:   "each workload runs once under strace; for every file-system mutation k of the recorded trace the directory after the first k mutations is rebuilt (plus torn variants of every append, cut at chosen bytes), opened with Recover by the real code and judged against the set of logs the markers allow; recoveries that modify the directory are re-recorded under strace and enumerated again (depth 2). distinct_nontrivial = distinct crash windows (in-flight op, role of the last completed FS event, role of the next FS event, torn?, depth)",
		Assume: []string{"the crash model of the property: the process dies between two syscalls or inside one append; completed syscalls are visible", "strace -f -y -xx records every create/append/rename/unlink with its bytes; every run self-checks that replaying the trace reproduces the real final directory byte for byte", "8-byte file headers are written atomically"}}
	props["C06"] = propInfo{Engine: "crashmon", Level: "fault_enumeration",
		Rule:   "same recorded traces; at chosen instants every file is cut back to a length between its last fsync (read from the syscall trace) and its current length (vectors: all at synced length, each single file, random), directory operations kept; Open(Recover) + scan judged against the Sync/AutoSync/Close watermark. distinct_nontrivial = distinct (in-flight op, instant role, cut-vector class, files actually cut) tuples",
		Assume: []string{"the durability model of the property: independent per-file tail loss down to the last fsynced length, directory operations durable in program order, 8-byte file headers atomic", "fsync/fdatasync calls are taken from the strace log, not from hooks"}}
}

const straceTraceSet = "trace=openat,write,pwrite64,fsync,fdatasync,ftruncate,truncate,renameat,renameat2,rename,unlinkat,unlink,mkdirat,mkdir,close,utimensat,copy_file_range,sendfile"

// ---------------------------------------------------------------------------------------
// workload specs

func defOpts(cfg ref.IndexCfg, rollover int64) OpenOpts {
	return OpenOpts{KeyIndex: cfg.Keys, TimeIdx: cfg.Times, Rollover: rollover, Create: true}
}

func scriptedWorkloads(tier string, seed int64) []WLSpec {
	var out []WLSpec
	cfgs := []ref.IndexCfg{{}, {Times: true, Keys: true}}
	vers := []int{2}
	if tier == "thorough" {
		cfgs = allCfgs
		vers = []int{2, 1}
	}
	pub := func(n int) WLStep { return WLStep{Kind: "publish", N: n} }
	del := func(t string) WLStep { return WLStep{Kind: "delete", Target: t} }
	k := 0
	for _, cfg := range cfgs {
		for _, v := range vers {
			mk := func(name string, o OpenOpts, steps ...WLStep) {
				k++
				o.NewVer = v
				all := append([]WLStep{{Kind: "open", Opts: &o}}, steps...)
				all = append(all, WLStep{Kind: "close"})
				out = append(out, WLSpec{Seed: seed*1000 + int64(k), Name: fmt.Sprintf("%s-%s-v%d", name, cfg, v), Steps: all})
			}
			o := defOpts(cfg, 150)
			// W1 publish with tiny rollover + Sync
			mk("W1-publish", o, pub(1), pub(3), pub(2), WLStep{Kind: "sync"}, pub(4), pub(1), pub(0), pub(2), WLStep{Kind: "sync"}, pub(3))
			// W2 reader-segment deletes
			mk("W2-reader-deletes", o, pub(3), pub(3), pub(3), pub(3), pub(3), pub(2), del("reader-middle"), del("reader-first"), del("reader-last"), del("reader-all"), pub(2), del("reader-first"))
			// W3 head deletes, each followed by publishes
			o3 := defOpts(cfg, 600)
			mk("W3-head-deletes", o3, pub(4), del("head-middle"), pub(2), del("head-first"), pub(3), del("head-tail"), pub(3), WLStep{Kind: "sync"}, del("head-first-tail"), pub(2), del("head-all"), pub(2), pub(1), del("head-tail"), WLStep{Kind: "sync"})
			// W4 version migration
			other := 3 - v
			oe := o
			oe.Eager, oe.NewVer = true, other
			ob := o
			ob.Eager, ob.NewVer = true, v
			mk("W4-migrate", o, pub(3), pub(3), pub(2), del("reader-middle"), WLStep{Kind: "reopen", Opts: &oe}, pub(2), WLStep{Kind: "close"}, WLStep{Kind: "migrate", V: v}, WLStep{Kind: "migrate", V: other}, WLStep{Kind: "open", Opts: &ob}, pub(1))
			// W6 AutoSync
			oa := defOpts(cfg, 200)
			oa.AutoSync = true
			mk("W6-autosync", oa, pub(2), pub(3), del("head-middle"), pub(2), pub(2), del("reader-first"), del("head-tail"), pub(1))
			// W9 multi-segment helpers (every inner Delete is its own all-or-nothing op)
			mk("W9-helpers", o, pub(3), pub(3), pub(3), pub(2), pub(3), WLStep{Kind: "trimoffset", N: 9}, pub(2), pub(2), WLStep{Kind: "compactupdates"}, pub(1), WLStep{Kind: "trimcount", N: 2}, pub(1))
			// W8 a process that dies without Sync/Close, a second one that only syncs or closes
			mk("W8-die-reopen-sync", o, pub(3), pub(2), WLStep{Kind: "die"}, WLStep{Kind: "open", Opts: &o}, WLStep{Kind: "sync"}, pub(1), WLStep{Kind: "sync"})
			mk("W8-die-reopen-close", o, pub(2), pub(3), pub(3), WLStep{Kind: "die"}, WLStep{Kind: "open", Opts: &o}, WLStep{Kind: "close"}, WLStep{Kind: "open", Opts: &o}, pub(2))
			// W8c: the writer dies without Sync/Close, a READ-ONLY handle then calls Sync ("returns the
			// nextOffset at the time of the Sync, so clients can determine what portion of the log is now
			// durable")
			oro := o
			oro.Readonly, oro.Create = true, false
			mk("W8-die-readonly-sync", o, pub(3), pub(2), WLStep{Kind: "die"}, WLStep{Kind: "open", Opts: &oro}, WLStep{Kind: "sync"}, WLStep{Kind: "close"}, WLStep{Kind: "open", Opts: &o}, pub(1))
			// W7 reopen with Recover/Check on clean state + KeepRewriteVersion deletes
			orr := o
			orr.Recover, orr.KeepVer = true, true
			mk("W7-reopen-recover", o, pub(3), pub(2), WLStep{Kind: "reopen", Opts: &orr}, pub(2), del("head-first"), del("reader-last"), WLStep{Kind: "close"}, WLStep{Kind: "recover"}, WLStep{Kind: "open", Opts: &orr}, pub(1))
		}
	}
	return out
}

func randomWorkload(seed int64, i int) WLSpec {
	r := NewRand(seed, 505, int64(i))
	cfg := pick(r, allCfgs)
	o := defOpts(cfg, pick(r, []int64{100, 150, 250, 500}))
	o.NewVer = pick(r, []int{0, 1, 2, 2})
	o.AutoSync = r.Chance(0.2)
	o.KeepVer = r.Chance(0.4)
	steps := []WLStep{{Kind: "open", Opts: &o}}
	targets := []string{"reader-middle", "reader-first", "reader-last", "reader-all", "head-middle", "head-first", "head-tail", "head-first-tail", "head-all", "nothing", "random"}
	n := 25 + r.Intn(20)
	closed := false
	cur := o
	for s := 0; s < n; s++ {
		if closed {
			switch r.Intn(4) {
			case 0:
				steps = append(steps, WLStep{Kind: "migrate", V: 1 + r.Intn(2)})
				continue
			case 1:
				steps = append(steps, WLStep{Kind: "recover"})
				continue
			}
			no := cur
			no.Create = false
			no.Rollover = pick(r, []int64{100, 150, 250, 500})
			no.NewVer = pick(r, []int{0, 1, 2, 2})
			no.Eager = r.Chance(0.3)
			no.Recover = r.Chance(0.3)
			no.KeepVer = r.Chance(0.4)
			cur = no
			steps = append(steps, WLStep{Kind: "open", Opts: &no})
			closed = false
			continue
		}
		switch x := r.Intn(100); {
		case x < 50:
			steps = append(steps, WLStep{Kind: "publish", N: r.Intn(5)})
		case x < 78:
			steps = append(steps, WLStep{Kind: "delete", Target: pick(r, targets)})
		case x < 81:
			steps = append(steps, WLStep{Kind: pick(r, []string{"trimcount", "trimoffset", "compactupdates"}), N: 2 + r.Intn(6)})
		case x < 86:
			steps = append(steps, WLStep{Kind: "sync"})
		case x < 90:
			steps = append(steps, WLStep{Kind: "gc"})
		case x < 95:
			no := cur
			no.Create = false
			no.NewVer = pick(r, []int{0, 1, 2, 2})
			no.Eager = r.Chance(0.4)
			no.Recover = r.Chance(0.3)
			cur = no
			steps = append(steps, WLStep{Kind: "reopen", Opts: &no})
		default:
			steps = append(steps, WLStep{Kind: "close"})
			closed = true
		}
	}
	if !closed {
		steps = append(steps, WLStep{Kind: "close"})
	}
	return WLSpec{Seed: seed*7919 + int64(i), Name: fmt.Sprintf("R%d-%s", i, cfg), Steps: steps}
}

// ---------------------------------------------------------------------------------------
// recording

type recorded struct {
	spec   WLSpec
	dir    string // run directory
	root   string
	events []fstrace.Event
	begins map[int]*WLBegin
	ends   map[int]*WLEnd
	cfg    ref.IndexCfg
	err    string
	died   string // the workload process ended in a Go runtime fatal error or an unrecovered panic
}

func recordWorkload(cfg *RunCfg, spec WLSpec, runDir string, pre *fstrace.FS) *recorded {
	rec := &recorded{spec: spec, dir: runDir, root: filepath.Join(runDir, "root"), begins: map[int]*WLBegin{}, ends: map[int]*WLEnd{}}
	os.MkdirAll(rec.root, 0o700)
	if pre != nil {
		if err := pre.Materialize(rec.root); err != nil {
			rec.err = "materialize: " + err.Error()
			return rec
		}
	}
	marker := filepath.Join(runDir, "markers")
	// a "die" step ends a process without Sync/Close; the remaining steps run in a new process on
	// the same directory. Each process is traced on its own, the event lists are concatenated.
	var parts [][]WLStep
	var cur []WLStep
	for _, st := range spec.Steps {
		cur = append(cur, st)
		if st.Kind == "die" {
			parts = append(parts, cur)
			cur = nil
		}
	}
	if len(cur) > 0 {
		parts = append(parts, cur)
	}
	tr := &fstrace.Trace{}
	base := 0
	for pi, steps := range parts {
		sub := spec
		sub.Steps = steps
		sub.Base = base
		sub.Seq = base * 10
		base += len(steps)
		specPath := filepath.Join(runDir, fmt.Sprintf("spec%d.json", pi))
		sb, _ := json.Marshal(sub)
		os.WriteFile(specPath, sb, 0o600)
		trace := filepath.Join(runDir, fmt.Sprintf("trace%d", pi))
		cmd := exec.Command("strace", "-f", "-y", "-xx", "-s", "1048576", "--seccomp-bpf", "-o", trace, "-e", straceTraceSet,
			cfg.Self, "crash-workload", rec.root, marker, specPath)
		cmd.Env = append(os.Environ(), "GOMAXPROCS=2")
		out, err := cmd.CombinedOutput()
		if err != nil {
			rec.err = fmt.Sprintf("strace run failed: %v: %s", err, clipStr(string(out), 300))
			for _, mark := range []string{"fatal error: ", "panic: "} {
				if i := strings.Index(string(out), mark); i >= 0 {
					ln := string(out)[i:]
					if j := strings.IndexByte(ln, '\n'); j >= 0 {
						ln = ln[:j]
					}
					rec.died = clipStr(ln, 80)
					rec.err = clipStr(string(out)[i:], 1500)
					break
				}
			}
			return rec
		}
		ptr, err := fstrace.Parse(trace, rec.root, marker)
		if err != nil {
			rec.err = "trace parse: " + err.Error()
			return rec
		}
		unsup := ptr.Count(fstrace.Unsupported)
		if steps[len(steps)-1].Kind == "die" {
			// calls cut off by the exit have an unknown outcome; the process was single-goroutine and
			// exits between calls, so there should be none - but do not trust a trace that has some
		}
		if ptr.SkippedLines > 0 || unsup > 0 {
			rec.err = fmt.Sprintf("trace has %d unparsed lines and %d unsupported events: %v", ptr.SkippedLines, unsup, ptr.Errors)
			return rec
		}
		for _, e := range ptr.Events {
			e.Seq = len(tr.Events)
			tr.Events = append(tr.Events, e)
		}
		os.Remove(trace)
	}
	// self-check: replaying the whole trace must reproduce the real final directory
	fs := fstrace.NewFS()
	if pre != nil {
		fs = pre.Clone()
	}
	for _, e := range tr.Events {
		if err := fs.Apply(e); err != nil {
			rec.err = "replay: " + err.Error()
			return rec
		}
	}
	if ok, why, err := fs.Equal(rec.root); err != nil || !ok {
		rec.err = fmt.Sprintf("replayed trace differs from the real directory: %s %v", why, err)
		return rec
	}
	rec.events = tr.Events
	// markers
	var pending []byte
	for _, e := range tr.Events {
		if e.Kind != fstrace.Marker {
			continue
		}
		pending = append(pending, e.Data...)
	}
	for _, ln := range bytes.Split(pending, []byte("\n")) {
		if len(ln) < 3 {
			continue
		}
		switch ln[0] {
		case 'B':
			var b WLBegin
			if json.Unmarshal(ln[2:], &b) == nil {
				rec.begins[b.I] = &b
			}
		case 'E':
			var e WLEnd
			if json.Unmarshal(ln[2:], &e) == nil {
				rec.ends[e.I] = &e
			}
		}
	}
	for _, st := range spec.Steps {
		if st.Opts != nil {
			rec.cfg = st.Opts.Cfg()
			break
		}
	}
	return rec
}

// concTable: every message published by the concurrent part of a workload, by offset.
func (rec *recorded) concTable() []ref.Msg {
	byOff := map[int64]ref.Msg{}
	var max int64
	for id, b := range rec.begins {
		if b.Kind != "cpub" {
			continue
		}
		e := rec.ends[id]
		if e == nil || e.Err != "" {
			continue
		}
		n := int64(len(b.Msgs))
		for j, m := range b.Msgs {
			off := e.Next - n + int64(j)
			byOff[off] = ref.Msg{Offset: off, T: m.T, Key: m.Key, Value: m.Value}
			if off+1 > max {
				max = off + 1
			}
		}
	}
	out := make([]ref.Msg, 0, max)
	for o := int64(0); o < max; o++ {
		m, ok := byOff[o]
		if !ok {
			break
		}
		out = append(out, m)
	}
	return out
}

func clipStr(s string, n int) string {
	if len(s) > n {
		return s[:n]
	}
	return s
}

// ---------------------------------------------------------------------------------------
// allowed set

type allowedSet struct {
	base     []ref.Msg // live after all acknowledged ops
	next     int64     // acknowledged NextOffset
	inflight *WLBegin
	end      *WLEnd // the result the in-flight op had in the recorded (uncrashed) run
	water    int64  // C06 watermark
	opts     OpenOpts
	conc     []ref.Msg // concurrent workloads (C06): every message of the run by offset; any prefix may survive
}

func (a *allowedSet) inflightName() string {
	if a.conc != nil {
		return "concurrent publish+sync"
	}
	if a.inflight == nil {
		return "idle"
	}
	n := a.inflight.Kind
	if a.inflight.Target != "" {
		n += ":" + a.inflight.Target
	}
	if a.inflight.Kind == "publish" {
		n += fmt.Sprintf("(%d)", minInt(len(a.inflight.Msgs), 2))
	}
	if a.inflight.Opts != nil {
		if a.inflight.Opts.Eager {
			n += "+eager"
		}
		if a.inflight.Opts.Recover {
			n += "+recover"
		}
	}
	return n
}

func (a *allowedSet) batch() []ref.Msg {
	var out []ref.Msg
	if a.inflight != nil && a.inflight.Kind == "publish" {
		for j, m := range a.inflight.Msgs {
			out = append(out, ref.Msg{Offset: a.next + int64(j), T: m.T, Key: m.Key, Value: m.Value})
		}
	}
	return out
}

// variants returns the live sequences a crash-consistent log may show (without publish prefixes).
func (a *allowedSet) variants() [][]ref.Msg {
	v := [][]ref.Msg{a.base}
	if a.inflight != nil && a.inflight.Kind == "delete" && a.end != nil && len(a.end.Deleted) > 0 {
		d := offsetSet(a.end.Deleted)
		var w []ref.Msg
		for _, m := range a.base {
			if _, gone := d[m.Offset]; !gone {
				w = append(w, m)
			}
		}
		v = append(v, w)
	}
	return v
}

func seqEqual(a, b []ref.Msg) bool {
	if len(a) != len(b) {
		return false
	}
	for i := range a {
		if !a[i].Equal(b[i]) {
			return false
		}
	}
	return true
}

// matchCrash: C05 — scan must be base (+ a prefix of the in-flight batch), or base minus the in-flight delete.
func (a *allowedSet) matchCrash(scan []ref.Msg) (bool, string) {
	batch := a.batch()
	for _, v := range a.variants() {
		if len(scan) >= len(v) && len(scan) <= len(v)+len(batch) && seqEqual(scan[:len(v)], v) && seqEqual(scan[len(v):], batch[:len(scan)-len(v)]) {
			return true, ""
		}
	}
	f := compareSeq(scan, a.base)
	why := "differs"
	if f != nil {
		why = f.What
	}
	return false, why
}

// matchPowerLoss: C06 — scan is a prefix of an allowed sequence (+ in-flight batch) and contains every
// message of it below the watermark.
func (a *allowedSet) matchPowerLoss(scan []ref.Msg) (bool, string) {
	if a.conc != nil {
		if len(scan) > len(a.conc) || !seqEqual(scan, a.conc[:len(scan)]) {
			return false, "survivors are not a prefix of what was published"
		}
		if int64(len(scan)) < a.water {
			return false, fmt.Sprintf("live offset %d below the watermark %d is lost", len(scan), a.water)
		}
		return true, ""
	}
	batch := a.batch()
	why := ""
	for _, v := range a.variants() {
		full := append(append([]ref.Msg(nil), v...), batch...)
		if len(scan) > len(full) || !seqEqual(scan, full[:len(scan)]) {
			if f := compareSeq(scan, full); f != nil {
				why = "survivors are not a prefix of what was acknowledged: " + f.What
			}
			continue
		}
		need := 0
		for _, m := range full {
			if m.Offset < a.water {
				need++
			}
		}
		if len(scan) < need {
			why = fmt.Sprintf("live offset %d below the watermark %d is lost", full[len(scan)].Offset, a.water)
			continue
		}
		return true, ""
	}
	return false, why
}

// ---------------------------------------------------------------------------------------
// roles of file-system events (for crash-window signatures)

var reSeg = regexp.MustCompile(`^(\d{20})\.(log|index)(.*)$`)

func fileClass(name string, headBase int64) (cls string, base int64) {
	m := reSeg.FindStringSubmatch(name)
	if m == nil {
		return "other", -1
	}
	base, _ = strconv.ParseInt(m[1], 10, 64)
	switch {
	case m[3] == "":
		cls = m[2]
		if base == headBase {
			cls += ":head"
		} else if base > headBase {
			cls += ":new-head"
		} else {
			cls += ":reader"
		}
	case strings.HasPrefix(m[3], ".rewrite.") && !strings.Contains(m[3], ".tmp"):
		cls = "rewrite-" + m[2]
	case m[3] == ".tmp" || strings.HasPrefix(m[3], ".tmp."):
		cls = m[2] + "-tmp" // the temp file of index.Write (uniquely named since the repair of D23)
	case strings.HasPrefix(m[3], ".rewrite.") && strings.Contains(m[3], ".tmp"):
		cls = "rewrite-" + m[2] + "-tmp"
	case m[3] == ".recover":
		cls = "recover-tmp"
	case m[3] == ".migrate":
		cls = "migrate-tmp"
	default:
		cls = "other"
	}
	return
}

func headBaseOf(fs *fstrace.FS) int64 {
	hb := int64(-1)
	for n := range fs.Files {
		if m := reSeg.FindStringSubmatch(n); m != nil && m[2] == "log" && m[3] == "" {
			b, _ := strconv.ParseInt(m[1], 10, 64)
			if b > hb {
				hb = b
			}
		}
	}
	return hb
}

func eventRole(e fstrace.Event, headBase int64) string {
	c, b := fileClass(e.Path, headBase)
	switch e.Kind {
	case fstrace.Rename:
		c2, b2 := fileClass(e.NewPath, headBase)
		how := "same-base"
		if b != b2 {
			how = "rebase"
		}
		return fmt.Sprintf("rename(%s->%s,%s)", c, c2, how)
	case fstrace.Write:
		return "append(" + c + ")"
	}
	return e.Kind.String() + "(" + c + ")"
}

func mutating(e fstrace.Event) bool {
	switch e.Kind {
	case fstrace.Create, fstrace.Open, fstrace.Write, fstrace.Truncate, fstrace.Rename, fstrace.Unlink:
		return true
	}
	return false
}

// ---------------------------------------------------------------------------------------
// images and jobs

type imageJob struct {
	fs      *fstrace.FS
	allowed *allowedSet
	after   string // role of the last completed event
	before  string // role of the next FS event
	torn    bool
	depth   int
	cutCls  string // C06: cut vector class
	cutN    int
	wl      string
	evIdx   int
	detail  string
}

func (j *imageJob) window() string {
	return fmt.Sprintf("d%d|%s|after=%s|before=%s|torn=%v", j.depth, j.allowed.inflightName(), j.after, j.before, j.torn)
}

func tornCuts(e fstrace.Event, thorough bool) []int {
	n := len(e.Data)
	if n <= 1 {
		return nil
	}
	if thorough && n <= 160 {
		out := make([]int, 0, n-1)
		for j := 1; j < n; j++ {
			out = append(out, j)
		}
		return out
	}
	cand := []int{1, 3, 4, 27, 28, 29, n / 2, n - 9, n - 8, n - 1}
	seen := map[int]bool{}
	var out []int
	for _, c := range cand {
		if c >= 1 && c < n && !seen[c] {
			seen[c] = true
			out = append(out, c)
		}
	}
	sort.Ints(out)
	return out
}

// isHeaderWrite: the 8-byte file header written on creation (assumed atomic by the property)
func isHeaderWrite(e fstrace.Event, fs *fstrace.FS) bool {
	f := fs.Files[e.Path]
	return f != nil && len(f.Data) == 0 && len(e.Data) == 8 && (bytes.HasPrefix(e.Data, ref.LogMagic) || bytes.HasPrefix(e.Data, ref.IndexMagic))
}

type walker struct {
	cfg       *RunCfg
	rec       *recorded
	state     *fstrace.FS
	allowed   allowedSet
	curOpts   OpenOpts
	thorough  bool
	emit      func(*imageJob)
	powerEmit func(*imageJob)
	depth     int
	r         *Rand
}

// walk replays the recorded events and emits crash images (C05) and power-loss images (C06).
func (w *walker) walk(fixedAllowed *allowedSet) {
	rec := w.rec
	evs := rec.events
	// index of the next mutating event after i, for the "before" role
	nextMut := make([]int, len(evs)+1)
	nextMut[len(evs)] = -1
	for i := len(evs) - 1; i >= 0; i-- {
		if mutating(evs[i]) {
			nextMut[i] = i
		} else {
			nextMut[i] = nextMut[i+1]
		}
	}
	var pendingMarker []byte
	lastRole := "start"
	for i, e := range evs {
		hb := headBaseOf(w.state)
		if e.Kind == fstrace.Marker {
			if fixedAllowed == nil {
				pendingMarker = append(pendingMarker, e.Data...)
				for {
					k := bytes.IndexByte(pendingMarker, '\n')
					if k < 0 {
						break
					}
					w.onMarker(pendingMarker[:k])
					pendingMarker = pendingMarker[k+1:]
				}
			}
			continue
		}
		al := w.allowed
		if fixedAllowed != nil {
			al = *fixedAllowed
		}
		role := eventRole(e, hb)
		beforeRole := func(k int) string {
			if k < 0 || k >= len(evs) || nextMut[k] < 0 {
				return "end"
			}
			return eventRole(evs[nextMut[k]], hb)
		}
		if mutating(e) {
			// torn variants of an append
			if e.Kind == fstrace.Write && !isHeaderWrite(e, w.state) && w.emit != nil {
				for _, cut := range tornCuts(e, w.thorough) {
					if f := w.state.Files[e.Path]; f != nil && len(f.Data)+cut < 8 {
						// the first 8 bytes of a file are what version detection reads (the V2 file
						// header; for V1 the first record's offset): assumed atomic, as in C07
						continue
					}
					img := w.state.Clone()
					pe := e
					pe.Data = e.Data[:cut]
					if img.Apply(pe) == nil {
						a := al
						w.emit(&imageJob{fs: img, allowed: &a, after: lastRole, before: role, torn: true, depth: w.depth, wl: rec.spec.Name, evIdx: i, detail: fmt.Sprintf("append to %s cut at byte %d of %d", e.Path, cut, len(e.Data))})
					}
				}
			}
			w.state.Apply(e)
			lastRole = role
			if w.emit != nil {
				a := al
				w.emit(&imageJob{fs: w.state.Clone(), allowed: &a, after: role, before: beforeRole(i + 1), depth: w.depth, wl: rec.spec.Name, evIdx: i})
			}
		} else {
			w.state.Apply(e)
		}
		if w.powerEmit != nil {
			w.powerImages(i, e, role, &al)
		}
	}
}

func (w *walker) onMarker(ln []byte) {
	if len(ln) < 3 {
		return
	}
	a := &w.allowed
	switch ln[0] {
	case 'B':
		var b WLBegin
		if json.Unmarshal(ln[2:], &b) != nil {
			return
		}
		if b.Kind == "cpub" || b.Kind == "csync" {
			if a.conc == nil {
				a.conc = w.rec.concTable()
			}
			return
		}
		a.inflight = &b
		a.end = w.rec.ends[b.I]
		if b.Opts != nil {
			w.curOpts = *b.Opts
		}
	case 'E':
		var e WLEnd
		if json.Unmarshal(ln[2:], &e) != nil {
			return
		}
		if b := w.rec.begins[e.I]; b != nil && (b.Kind == "cpub" || b.Kind == "csync") {
			if b.Kind == "csync" && e.Err == "" && e.Next > a.water {
				a.water = e.Next
			}
			return
		}
		if a.inflight == nil {
			return
		}
		b := a.inflight
		switch b.Kind {
		case "publish":
			if e.Err == "" {
				a.base = append(a.base, a.batch()...)
				a.next = e.Next
				if w.curOpts.AutoSync && e.Next > a.water {
					a.water = e.Next
				}
			}
		case "delete":
			if len(e.Deleted) > 0 {
				d := offsetSet(e.Deleted)
				var nb []ref.Msg
				for _, m := range a.base {
					if _, gone := d[m.Offset]; !gone {
						nb = append(nb, m)
					}
				}
				a.base = nb
			}
		case "sync":
			if e.Err == "" && e.Next > a.water {
				a.water = e.Next
			}
		case "close":
			if e.Err == "" && e.Next > a.water {
				a.water = e.Next
			}
		case "tear":
			// the earlier power loss that the tear stands for took the newest message (the cut is
			// shorter than any record and lies above the watermark): it is legitimately gone and its
			// offset will be assigned again
			if e.Err == "" && b.Target != "index" && len(a.base) > 0 && a.base[len(a.base)-1].Offset == a.next-1 && a.next-1 >= a.water {
				a.base = a.base[:len(a.base)-1]
				a.next--
			}
		}
		a.inflight, a.end = nil, nil
		a.opts = w.curOpts
	}
}

// powerImages emits tail-loss images at the instant after event i.
func (w *walker) powerImages(i int, e fstrace.Event, role string, al *allowedSet) {
	interesting := true || w.thorough || e.Kind == fstrace.Fsync || e.Kind == fstrace.Rename || e.Kind == fstrace.Marker || e.Kind == fstrace.Unlink || e.Kind == fstrace.Create
	if !interesting && !w.r.Chance(0.25) {
		return
	}
	// files with unsynced tails
	var dirty []string
	for n, f := range w.state.Files {
		if f.Synced < len(f.Data) {
			dirty = append(dirty, n)
		}
	}
	if len(dirty) == 0 {
		return
	}
	sort.Strings(dirty)
	legal := func(f *fstrace.File, c int) int {
		// never inside the first 8 bytes of a file: the V2 file header, or for V1 the first
		// record's offset that version detection reads (assumed atomic, as in C05/C07)
		if c > 0 && c < 8 {
			return f.Synced
		}
		return c
	}
	mk := func(cls string, cuts map[string]int) {
		img := w.state.Clone()
		n := 0
		var names []string
		for name, c := range cuts {
			f := img.Files[name]
			c = legal(f, c)
			if c < len(f.Data) {
				f.Data = f.Data[:c]
				n++
				fc, _ := fileClass(name, headBaseOf(w.state))
				names = append(names, fc)
			}
		}
		if n == 0 {
			return
		}
		sort.Strings(names)
		a := *al
		w.powerEmit(&imageJob{fs: img, allowed: &a, after: role, depth: 0, cutCls: cls + ":" + strings.Join(names, "+"), cutN: n, wl: w.rec.spec.Name, evIdx: i})
	}
	all := map[string]int{}
	for _, n := range dirty {
		all[n] = w.state.Files[n].Synced
	}
	mk("all-synced", all)
	if len(dirty) > 1 {
		for _, n := range dirty {
			mk("single", map[string]int{n: w.state.Files[n].Synced})
		}
	}
	rn := 4
	if w.thorough {
		rn = 10
	}
	for k := 0; k < rn; k++ {
		cuts := map[string]int{}
		for _, n := range dirty {
			f := w.state.Files[n]
			switch x := w.r.Intn(10); {
			case x < 3:
				cuts[n] = f.Synced
			case x < 5:
				cuts[n] = len(f.Data)
			default:
				cuts[n] = f.Synced + w.r.Intn(len(f.Data)-f.Synced+1)
			}
		}
		mk("random", cuts)
	}
}

// ---------------------------------------------------------------------------------------
// oracles

type judgeCtx struct {
	cfg    *RunCfg
	rep    *Reporter
	cov    *Cov
	icfg   ref.IndexCfg
	seq    atomic.Int64
	depth2 chan *imageJob
}

var imgSeq atomic.Int64

func (jc *judgeCtx) dir() string {
	return filepath.Join(jc.cfg.Scratch, fmt.Sprintf("img%d", imgSeq.Add(1)))
}

// overlapping reports whether the image holds two segments with overlapping offsets: the state a
// crash leaves between the rename of a rebased rewrite and the removal of the segment it replaces.
func overlapping(fs *fstrace.FS) bool {
	type seg struct {
		base int64
		last int64
		n    int
	}
	var segs []seg
	for n, f := range fs.Files {
		m := reSeg.FindStringSubmatch(n)
		if m == nil || m[2] != "log" || m[3] != "" {
			continue
		}
		b, _ := strconv.ParseInt(m[1], 10, 64)
		_, spans, _, _, _ := ref.ParseLog(f.Data, b)
		sg := seg{base: b, n: len(spans)}
		if len(spans) > 0 {
			sg.last = spans[len(spans)-1].Msg.Offset
		}
		segs = append(segs, sg)
	}
	sort.Slice(segs, func(i, j int) bool { return segs[i].base < segs[j].base })
	for i := 0; i+1 < len(segs); i++ {
		if segs[i].n > 0 && segs[i].last >= segs[i+1].base {
			return true
		}
	}
	return false
}

// symptomClass: coarse class used in signatures (the detailed symptom stays in the description).
func symptomClass(symptom string) string {
	for _, p := range []string{"views-disagree", "scan-error", "scan-not-allowed", "append-scan"} {
		if strings.HasPrefix(symptom, p) {
			return "inconsistent-views"
		}
	}
	return strings.SplitN(symptom, ":", 2)[0]
}

func (jc *judgeCtx) report(j *imageJob, prop, symptom, what string) {
	sig := fmt.Sprintf("crashmon|%s|%s", j.window(), symptomClass(symptom))
	if j.allowed.inflight != nil && j.allowed.inflight.Kind == "delete" && !j.torn && overlapping(j.fs) {
		sig = fmt.Sprintf("crashmon|delete|overlap(old and rebased segment both present)|%s", symptomClass(symptom))
	}
	what = "[" + symptom + "] " + what
	if prop == "C06" {
		sig = fmt.Sprintf("crashmon|power|%s|after=%s|%s", j.allowed.inflightName(), j.after, symptomClass(symptom))
		if j.allowed.inflight != nil && j.allowed.inflight.Kind == "delete" && overlapping(j.fs) {
			// the same state as finding D8 of C05, reached here because directory operations are
			// durable in program order
			sig = "crashmon|power|delete|overlap(old and rebased segment both present)"
		}
	}
	var files []string
	for _, n := range j.fs.Names() {
		f := j.fs.Files[n]
		files = append(files, fmt.Sprintf("%s:%d(synced %d)", n, len(f.Data), f.Synced))
	}
	jc.rep.Report(Violation{Property: prop, Sig: sig, What: what,
		Replay: map[string]any{"workload": j.wl, "event_index": j.evIdx, "window": j.window(), "detail": j.detail, "cut": j.cutCls, "image_files": files,
			"acked_next": j.allowed.next, "acked_live": ref.OffsetsOf(j.allowed.base), "watermark": j.allowed.water, "inflight": j.allowed.inflight, "inflight_result": j.allowed.end, "seed": jc.cfg.Seed}})
}

func (jc *judgeCtx) openOpts(j *imageJob) OpenOpts {
	o := OpenOpts{KeyIndex: jc.icfg.Keys, TimeIdx: jc.icfg.Times, Rollover: 200, Recover: true}
	if j.allowed.opts.Rollover > 0 {
		o.Rollover = j.allowed.opts.Rollover
	}
	// "opening the directory with Recover" leaves the other options open: a quarter of the images
	// is recovered together with an eager migration to V1, a quarter to V2
	switch j.evIdx % 4 {
	case 1:
		o.Eager, o.NewVer = true, 1
	case 3:
		o.Eager, o.NewVer = true, 2
	}
	// Check and Recover together: documented as "Open will directly try to recover"
	if j.evIdx%3 == 2 {
		o.Check = true
	}
	return o
}

// judgeCrash: the C05 oracle for one image.
func (jc *judgeCtx) judgeCrash(j *imageJob) {
	cov := jc.cov
	cov.Add("evaluations", 1)
	kind := "boundary"
	if j.torn {
		kind = "torn"
	}
	cov.Add(fmt.Sprintf("images.d%d.%s", j.depth, kind), 1)
	cov.Distinct("crashwin", j.window())
	dir := jc.dir()
	defer os.RemoveAll(dir)
	os.MkdirAll(dir, 0o700)
	if err := j.fs.Materialize(dir); err != nil {
		jc.rep.Inconclusive("materialize failed")
		return
	}
	before := mustSnap(dir)
	o := jc.openOpts(j)
	l, err := kOpen(dir, o)
	if err != nil {
		sym := "recover-open-error:" + errClass(err)
		if isPanic(err) {
			sym = "recover-open-panic:" + panicFrame(err)
		}
		jc.report(j, "C05", sym, fmt.Sprintf("Open(Recover) failed on the crash image: %s", errText(err)))
		return
	}
	afterOpen := mustSnap(dir)
	changedByRecover := false
	if ok, _ := snapEqual(before, afterOpen); !ok {
		changedByRecover = true
	}
	scan, _, f := scanLog(l, 5, 4096)
	if f != nil {
		kClose(l)
		jc.report(j, "C05", "scan-error:"+f.Sig, "reading the recovered log failed: "+f.What)
		return
	}
	if ok, why := j.allowed.matchCrash(scan); !ok {
		kClose(l)
		jc.report(j, "C05", "scan-not-allowed", fmt.Sprintf("the recovered log shows offsets %v; acknowledged live offsets %v, in-flight %s: %s", ref.OffsetsOf(scan), ref.OffsetsOf(j.allowed.base), j.allowed.inflightName(), why))
		return
	}
	nx, err := kNext(l)
	if err != nil || nx < j.allowed.next {
		kClose(l)
		jc.report(j, "C05", "next-backwards", fmt.Sprintf("NextOffset after recovery is %d (err=%v), %d had been acknowledged", nx, err, j.allowed.next))
		return
	}
	// all views agree, the scan being the reference
	model := &ref.Model{Cfg: jc.icfg, Live: scan, Next: nx}
	var vf *Fail
	for off := int64(-2); off <= nx+1 && vf == nil; off++ {
		vf = getCell(l, model, off)
		if vf == nil && off >= -2 {
			vf = consumeCell(l, model, off, 3)
		}
	}
	if vf == nil && jc.icfg.Keys {
		seen := map[string]bool{}
		keys := [][]byte{[]byte("a"), []byte("b"), nil, []byte("cc"), []byte("zz")}
		for _, k := range keys {
			if !seen[string(k)] && vf == nil {
				seen[string(k)] = true
				vf = getByKeyCell(l, model, k)
				if vf == nil {
					vf = consumeByKeyIterate(l, model, k, 2)
				}
			}
		}
	}
	if vf == nil && jc.icfg.Times && ref.TimesNonDecreasing(scan) {
		for _, t := range timeSweep(model, 80) {
			if vf = getByTimeCell(l, model, t); vf != nil {
				break
			}
		}
	}
	if vf == nil {
		vf = statCell(l, model, dir)
	}
	if vf != nil {
		kClose(l)
		jc.report(j, "C05", "views-disagree:"+strings.SplitN(vf.Sig, ":", 2)[0], "after recovery the views disagree (scan is the reference): "+vf.What)
		return
	}
	if err := kClose(l); err != nil {
		jc.report(j, "C05", "close-error", "Close after recovery failed: "+errText(err))
		return
	}
	after1 := mustSnap(dir)
	changed := changedByRecover
	// recovering again changes nothing
	l2, err := kOpen(dir, o)
	if err != nil {
		jc.report(j, "C05", "second-recover-open-error:"+errClass(err), "second Open(Recover) failed: "+errText(err))
		return
	}
	kClose(l2)
	after2 := mustSnap(dir)
	if ok, why := snapEqual(after1, after2); !ok {
		jc.report(j, "C05", "recover-not-idempotent", "recovering again changed the directory: "+why)
		return
	}
	// the log can be appended to and still passes Check
	oo := o
	oo.Recover = false
	l3, err := kOpen(dir, oo)
	if err != nil {
		jc.report(j, "C05", "open-after-recover-error:"+errClass(err), "Open after recovery failed: "+errText(err))
		return
	}
	extra := klevdb.Message{Key: []byte("a"), Value: []byte("after-crash"), Time: fromRef(ref.Msg{T: baseTime + 1_000_000}).Time}
	pm := []klevdb.Message{extra}
	nx2, err := kPublish(l3, pm)
	if err != nil || nx2 != nx+1 {
		kClose(l3)
		jc.report(j, "C05", "append-error", fmt.Sprintf("Publish after recovery returned %d, %v (NextOffset was %d)", nx2, err, nx))
		return
	}
	kClose(l3)
	if err := guard(func() error { return klevdb.Check(dir, oo.K()) }); err != nil {
		jc.report(j, "C05", "append-then-check-fails:"+errClass(err), "Check fails after recovery + append: "+errText(err))
		return
	}
	oc := oo
	oc.Check = true
	l4, err := kOpen(dir, oc)
	if err != nil {
		jc.report(j, "C05", "append-then-open-check-fails:"+errClass(err), "Open(Check) fails after recovery + append: "+errText(err))
		return
	}
	scan2, _, f := scanLog(l4, 7, 4096)
	kClose(l4)
	want := append(append([]ref.Msg(nil), scan...), toRef(pm[0]))
	if f == nil {
		f = compareSeq(scan2, want)
	}
	if f != nil {
		jc.report(j, "C05", "append-scan:"+strings.SplitN(f.Sig, ":", 2)[0], "after recovery + append the log reads differently: "+f.What)
		return
	}
	if changed {
		cov.Add("recoveries_that_changed_the_directory", 1)
		if j.depth == 1 && jc.depth2 != nil {
			select {
			case jc.depth2 <- j:
			default:
			}
		}
	}
}

// judgePower: the C06 oracle for one tail-loss image.
func (jc *judgeCtx) judgePower(j *imageJob) {
	cov := jc.cov
	cov.Add("evaluations", 1)
	cov.Add("power_images."+strings.SplitN(j.cutCls, ":", 2)[0], 1)
	cov.Distinct("powerwin", fmt.Sprintf("%s|after=%s|%s", j.allowed.inflightName(), j.after, j.cutCls))
	dir := jc.dir()
	defer os.RemoveAll(dir)
	os.MkdirAll(dir, 0o700)
	if err := j.fs.Materialize(dir); err != nil {
		jc.rep.Inconclusive("materialize failed")
		return
	}
	o := jc.openOpts(j)
	l, err := kOpen(dir, o)
	if err != nil {
		jc.report(j, "C06", "recover-open-error:"+errClass(err), fmt.Sprintf("Open(Recover) failed after losing unsynced data (%s): %s", j.cutCls, errText(err)))
		return
	}
	defer kClose(l)
	scan, _, f := scanLog(l, 5, 4096)
	if f != nil {
		jc.report(j, "C06", "scan-error:"+f.Sig, "reading the recovered log failed: "+f.What)
		return
	}
	if ok, why := j.allowed.matchPowerLoss(scan); !ok {
		sym := "not-a-prefix"
		if strings.Contains(why, "watermark") {
			sym = "lost-below-watermark"
		}
		jc.report(j, "C06", sym, fmt.Sprintf("after losing unsynced data (%s) the log shows offsets %v; acknowledged %v, watermark %d: %s", j.cutCls, ref.OffsetsOf(scan), ref.OffsetsOf(j.allowed.base), j.allowed.water, why))
		return
	}
	nx, err := kNext(l)
	if err != nil || nx < j.allowed.water {
		jc.report(j, "C06", "next-below-watermark", fmt.Sprintf("NextOffset after recovery is %d, the watermark is %d", nx, j.allowed.water))
		return
	}
	// "contains" also means addressable: every message the scan shows is returned by Get
	for _, m := range scan {
		g, err := kGet(l, m.Offset)
		if err != nil || !toRef(g).Equal(m) {
			jc.report(j, "C06", "views-disagree:get", fmt.Sprintf("after recovery the scan shows offset %d but Get(%d) returns %v %s", m.Offset, m.Offset, toRef(g), errText(err)))
			return
		}
	}
	if j.allowed.water > 0 {
		cov.Add("power_images_with_watermark", 1)
	}
}

// ---------------------------------------------------------------------------------------
// engine

func runCrashmon(cfg *RunCfg, rep *Reporter, cov *Cov, ev *Evidence) {
	if _, err := exec.LookPath("strace"); err != nil {
		fmt.Println("INCONCLUSIVE: strace is not available; C05/C06 cannot be decided")
		rep.Inconclusive("strace not available")
	}
	thorough := cfg.Tier == "thorough"
	specs := scriptedWorkloads(cfg.Tier, cfg.Seed)
	nRand := 6
	if thorough {
		nRand = 60
	}
	nRand = int(float64(nRand) * cfg.Scale)
	for i := 0; i < nRand; i++ {
		specs = append(specs, randomWorkload(cfg.Seed, i))
	}
	if cfg.Property == "C06" {
		// concurrent publishers + a syncer: is what a concurrent Sync returned really durable?
		nc := 4
		if thorough {
			nc = 24
		}
		for i := 0; i < nc; i++ {
			o := defOpts(allCfgs[i%4], []int64{300, 2000, 100000}[i%3])
			specs = append(specs, WLSpec{Seed: cfg.Seed*31 + int64(i), Name: fmt.Sprintf("CS%d-%s", i, o.Cfg()), Steps: []WLStep{{Kind: "open", Opts: &o}, {Kind: "concsync", N: 25, V: 1 + i%3}, {Kind: "close"}}})
		}
	}
	if cfg.Property == "C06" {
		// a head segment torn by an earlier power loss (unsynced bytes of the last batch cut off), then
		// the recovery itself under the power-loss model
		nt := 6
		if thorough {
			nt = 24
		}
		for i := 0; i < nt; i++ {
			o := defOpts(allCfgs[i%4], []int64{2000, 150}[i/4%2])
			o.NewVer = []int{2, 2, 1}[i%3]
			orr := o
			orr.Recover = true
			target := "log"
			if i%6 == 5 {
				target = "index"
			}
			steps := []WLStep{
				{Kind: "open", Opts: &o}, {Kind: "publish", N: 3}, {Kind: "sync"}, {Kind: "publish", N: 2 + i%2}, {Kind: "die"},
				{Kind: "tear", N: []int{1, 5, 17, 3}[i%4], Target: target}, {Kind: "open", Opts: &orr}, {Kind: "publish", N: 1}, {Kind: "sync"}, {Kind: "close"}}
			if i%6 == 4 {
				// the log cut at a record boundary and the index inside the item of the lost record; after the
				// recovery the segment is appended to, rolls over and is read again by a later process
				target = "both"
				steps = []WLStep{
					{Kind: "open", Opts: &o}, {Kind: "publish", N: 3}, {Kind: "sync"}, {Kind: "publish", N: 3}, {Kind: "die"},
					{Kind: "tear", N: 5, Target: target}, {Kind: "open", Opts: &orr}, {Kind: "publish", N: 3}, {Kind: "publish", N: 3}, {Kind: "publish", N: 2}, {Kind: "sync"}, {Kind: "close"},
					{Kind: "open", Opts: &o}, {Kind: "publish", N: 1}, {Kind: "close"}}
			}
			specs = append(specs, WLSpec{Seed: cfg.Seed*37 + int64(i), Name: fmt.Sprintf("TR%d-%s-v%d-%s", i, o.Cfg(), o.NewVer, target), Steps: steps})
		}
	}
	if cfg.Scale < 1 {
		specs = specs[:maxInt(2, int(float64(len(specs))*cfg.Scale))]
	}
	// record all workloads (in parallel: each is its own process)
	recs := make([]*recorded, len(specs))
	parallel(len(specs), cfg.Workers, func(i int) {
		recs[i] = recordWorkload(cfg, specs[i], filepath.Join(cfg.Scratch, fmt.Sprintf("run%d", i)), nil)
	})
	isC05 := cfg.Property == "C05"
	jobs := make(chan *imageJob, 256)
	var wg sync.WaitGroup
	var jcs []*judgeCtx
	depth2 := make(chan *imageJob, 100000)
	jcByWl := map[string]*judgeCtx{}
	for _, rec := range recs {
		jc := &judgeCtx{cfg: cfg, rep: rep, cov: cov, icfg: rec.cfg}
		if isC05 {
			jc.depth2 = depth2
		}
		jcs = append(jcs, jc)
		jcByWl[rec.spec.Name] = jc
	}
	for k := 0; k < cfg.Workers; k++ {
		wg.Add(1)
		go func() {
			defer wg.Done()
			for j := range jobs {
				jc := jcByWl[j.wl]
				if isC05 {
					jc.judgeCrash(j)
				} else {
					jc.judgePower(j)
				}
			}
		}()
	}
	nOps := 0
	for _, rec := range recs {
		if rec.died != "" {
			// not a crash that the harness injected: the process that runs the plain workload (the
			// calls of the quantifier, nothing else) was ended by the Go runtime
			rep.Report(Violation{Property: cfg.Property, Sig: "crashmon|workload-process-died:" + rec.died, What: fmt.Sprintf("the process running workload %s (no fault injected) was ended by the Go runtime: %s", rec.spec.Name, rec.died), Replay: map[string]any{"workload": rec.spec, "output": rec.err}})
			cov.Add("workloads_died", 1)
			continue
		}
		if rec.err != "" {
			rep.Inconclusive("workload " + rec.spec.Name + ": " + rec.err)
			cov.Add("workloads_inconclusive", 1)
			continue
		}
		cov.Add("workloads", 1)
		nOps += len(rec.spec.Steps)
		for _, e := range rec.events {
			cov.Add("trace_events."+e.Kind.String(), 1)
		}
		for _, e := range rec.ends {
			if e.Err != "" {
				cov.Add("workload_op_errors", 1)
			}
		}
		w := &walker{cfg: cfg, rec: rec, state: fstrace.NewFS(), thorough: thorough, depth: 1, r: NewRand(cfg.Seed, strHash(rec.spec.Name))}
		if isC05 {
			w.emit = func(j *imageJob) { jobs <- j }
		} else {
			w.powerEmit = func(j *imageJob) { jobs <- j }
		}
		w.walk(nil)
		cov.Sample("workload-"+strings.SplitN(rec.spec.Name, "-", 2)[0], map[string]any{"workload": rec.spec.Name, "steps": stepsShort(rec.spec.Steps), "trace_events": len(rec.events)})
	}
	close(jobs)
	wg.Wait()
	cov.Add("workload_ops", int64(nOps))
	// depth 2: recoveries that modified the directory are recorded under strace and enumerated again
	if isC05 {
		close(depth2)
		var d2 []*imageJob
		seenWin := map[string]int{}
		limitPerWin, limit := 1, 150
		if thorough {
			limitPerWin, limit = 4, 3000
		}
		for j := range depth2 {
			if seenWin[j.window()] < limitPerWin && len(d2) < limit {
				seenWin[j.window()]++
				d2 = append(d2, j)
			}
		}
		sort.Slice(d2, func(a, b int) bool { return d2[a].window()+d2[a].wl < d2[b].window()+d2[b].wl })
		jobs2 := make(chan *imageJob, 256)
		var wg2 sync.WaitGroup
		for k := 0; k < cfg.Workers; k++ {
			wg2.Add(1)
			go func() {
				defer wg2.Done()
				for j := range jobs2 {
					jcByWl[j.wl].judgeCrash(j)
				}
			}()
		}
		parallel(len(d2), cfg.Workers, func(i int) {
			j := d2[i]
			jc := jcByWl[j.wl]
			o := jc.openOpts(j)
			o.Create = false
			spec := WLSpec{Seed: 1, Name: j.wl, Steps: []WLStep{{Kind: "open", Opts: &o}, {Kind: "close"}}}
			rec := recordWorkload(cfg, spec, filepath.Join(cfg.Scratch, fmt.Sprintf("d2run%d", i)), j.fs)
			if rec.err != "" {
				rep.Inconclusive("depth-2 recording: " + clipStr(rec.err, 120))
				return
			}
			cov.Add("depth2_recoveries_recorded", 1)
			w := &walker{cfg: cfg, rec: rec, state: j.fs.Clone(), thorough: thorough, depth: 2, r: NewRand(cfg.Seed, int64(i))}
			w.emit = func(x *imageJob) {
				x.detail = "crash inside the recovery of: " + j.window() + " " + j.detail + "; " + x.detail
				jobs2 <- x
			}
			fixed := *j.allowed
			fixed.inflight, fixed.end = j.allowed.inflight, j.allowed.end
			w.walk(&fixed)
			os.RemoveAll(rec.dir)
		})
		close(jobs2)
		wg2.Wait()
	}
	set := "crashwin"
	if !isC05 {
		set = "powerwin"
	}
	ev.Coverage["evaluations"] = cov.Get("evaluations")
	ev.Coverage["distinct_nontrivial"] = int64(cov.SetSize(set))
	ev.Coverage["distinct_examples"] = cov.SetMembers(set, 14)
	ev.Coverage["workloads"] = cov.Get("workloads")
	ev.Coverage["workloads_inconclusive"] = cov.Get("workloads_inconclusive")
	ev.Coverage["workload_ops"] = cov.Get("workload_ops")
	ev.Coverage["workload_op_errors"] = cov.Get("workload_op_errors")
	ev.Coverage["trace_events_by_kind"] = cov.Counts("trace_events.")
	ev.Coverage["images_by_kind"] = cov.Counts("images.")
	ev.Coverage["power_images_by_vector"] = cov.Counts("power_images.")
	ev.Coverage["power_images_with_watermark"] = cov.Get("power_images_with_watermark")
	ev.Coverage["recoveries_that_changed_the_directory"] = cov.Get("recoveries_that_changed_the_directory")
	ev.Coverage["depth2_recoveries_recorded"] = cov.Get("depth2_recoveries_recorded")
	ev.Coverage["samples"] = cov.Samples()
}

func maxInt(a, b int) int {
	if a > b {
		return a
	}
	return b
}

func stepsShort(steps []WLStep) []string {
	var out []string
	for _, s := range steps {
		x := s.Kind
		if s.N > 0 {
			x += fmt.Sprintf("(%d)", s.N)
		}
		if s.Target != "" {
			x += ":" + s.Target
		}
		if s.V > 0 {
			x += fmt.Sprintf(":v%d", s.V)
		}
		out = append(out, x)
	}
	return out
}
