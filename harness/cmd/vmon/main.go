// vmon — runtime monitors for klevdb (see /verif/DESIGN.md).
package main

import (
	"encoding/json"
	"flag"
	"fmt"
	"os"
	"path/filepath"
	"runtime"
	"runtime/debug"
	"runtime/pprof"
	"strconv"
	"strings"
	"time"
)

type propInfo struct {
	Engine string
	Level  string
	Rule   string
	Assume []string
}

var props = map[string]propInfo{}

func main() {
	if len(os.Args) < 2 {
		fmt.Fprintln(os.Stderr, "usage: vmon <check|crash-workload|...> [flags]")
		os.Exit(2)
	}
	sub := os.Args[1]
	switch sub {
	case "check":
		// a soft limit: the collector returns memory to the system instead of letting the resident
		// set follow the garbage (damaged length fields make the code under test allocate GiBs)
		debug.SetMemoryLimit(12 << 30)
		os.Exit(runCheck(os.Args[2:]))
	default:
		if fn, ok := subcommands[sub]; ok {
			os.Exit(fn(os.Args[2:]))
		}
		fmt.Fprintf(os.Stderr, "unknown subcommand %q\n", sub)
		os.Exit(2)
	}
}

// subcommands are helper entry points (child processes of engines).
var subcommands = map[string]func([]string) int{}

func runCheck(args []string) int {
	fs := flag.NewFlagSet("check", flag.ExitOnError)
	cfg := &RunCfg{}
	fs.StringVar(&cfg.Property, "property", "", "property id (C01..C20)")
	fs.StringVar(&cfg.Tier, "tier", "quick", "quick|thorough")
	fs.Int64Var(&cfg.Seed, "seed", 1, "seed")
	fs.StringVar(&cfg.Evidence, "evidence", "", "evidence file")
	fs.StringVar(&cfg.Findings, "findings", "", "known findings file")
	fs.StringVar(&cfg.Replays, "replays", "replays", "replay directory")
	fs.StringVar(&cfg.Replay, "replay", "", "replay a recorded violation file")
	fs.IntVar(&cfg.Workers, "workers", runtime.NumCPU(), "parallel workers")
	fs.Float64Var(&cfg.Scale, "scale", 1, "scale the number of cases (debugging)")
	fs.IntVar(&cfg.Shard, "shard", 0, "shard index (children of sharded engines)")
	fs.IntVar(&cfg.Shards, "shards", 0, "number of shards (0 = this is the parent)")
	prof := fs.String("cpuprofile", "", "write a CPU profile")
	fs.Parse(args)
	if *prof != "" {
		f, _ := os.Create(*prof)
		pprof.StartCPUProfile(f)
		defer pprof.StopCPUProfile()
	}
	if s := os.Getenv("VERIF_SCALE"); s != "" {
		if f, err := strconv.ParseFloat(s, 64); err == nil {
			cfg.Scale = f
		}
	}
	cfg.Self, _ = os.Executable()
	info, ok := props[cfg.Property]
	if !ok {
		fmt.Fprintf(os.Stderr, "no check for property %q\n", cfg.Property)
		return 2
	}
	cfg.Engine = info.Engine
	start := time.Now()
	cfg.Scratch = scratchRoot()
	defer os.RemoveAll(cfg.Scratch)
	rep := NewReporter(cfg)
	cov := NewCov()
	ev := &Evidence{PropertyID: cfg.Property, Tier: cfg.Tier, Seed: cfg.Seed, Level: info.Level, Coverage: map[string]any{}, Assumptions: info.Assume}

	if cfg.Replay != "" {
		return runReplay(cfg, rep, cov)
	}

	go stuckWatch(cfg, rep, cov, ev, start)
	code := 0
	switch info.Engine {
	case "histmon":
		runHistmon(cfg, rep, cov)
		fillHistEvidence(cfg, ev, cov)
	default:
		if fn, ok := engines[info.Engine]; ok {
			fn(cfg, rep, cov, ev)
		} else {
			fmt.Fprintf(os.Stderr, "engine %s not implemented\n", info.Engine)
			return 2
		}
	}
	if cfg.Shards > 0 {
		// a shard child: hand everything to the parent and stop
		b, _ := json.Marshal(dumpShard(rep, cov))
		fmt.Printf("SHARD-RESULT %s\n", b)
		return 0
	}
	ev.Coverage["rule"] = info.Rule
	code = rep.Finish(ev)
	// floors: refuse to say "held" when nothing was observed
	evals, _ := ev.Coverage["evaluations"].(int64)
	dn, _ := ev.Coverage["distinct_nontrivial"].(int64)
	ev.Write(cfg.Evidence, start)
	fmt.Printf("%s %s seed=%d: evaluations=%d distinct_nontrivial=%d violations=%d wall=%.1fs\n", cfg.Property, cfg.Tier, cfg.Seed, evals, dn, ev.Violations, ev.WallS)
	if code == 0 && (evals < 1 || dn < 2) {
		fmt.Printf("INCONCLUSIVE property=%s: the run observed too little (evaluations=%d distinct_nontrivial=%d)\n", cfg.Property, evals, dn)
		return 2
	}
	return code
}

type engineFn func(cfg *RunCfg, rep *Reporter, cov *Cov, ev *Evidence)

var engines = map[string]engineFn{}

// distinct-set name per histmon property
var histDistinct = map[string]string{
	"C01": "state_nontrivial", "C02": "c02", "C03": "c03", "C04": "c04", "C09": "c09", "C10": "c10",
	"C11": "c11", "C12": "c12", "C13": "c13", "C15": "c15", "C16": "c16", "C17": "c17", "C20": "c20", "C19": "c19",
}

func fillHistEvidence(cfg *RunCfg, ev *Evidence, cov *Cov) {
	set := histDistinct[cfg.Property]
	ev.Coverage["evaluations"] = cov.Get("evaluations")
	ev.Coverage["distinct_nontrivial"] = int64(cov.SetSize(set))
	ev.Coverage["distinct_examples"] = cov.SetMembers(set, 12)
	ev.Coverage["histories"] = cov.Get("histories")
	ev.Coverage["steps"] = cov.Get("steps")
	ev.Coverage["ops_by_kind"] = cov.Counts("ops.")
	ev.Coverage["closed_dir_calls"] = cov.Counts("closed.")
	ev.Coverage["aborted_foreign"] = cov.Counts("aborted_foreign")
	ev.Coverage["distinct_states"] = int64(cov.SetSize("state"))
	ev.Coverage["distinct_nontrivial_states"] = int64(cov.SetSize("state_nontrivial"))
	ev.Coverage["open_option_combinations"] = int64(cov.SetSize("open_opts"))
	ev.Coverage["reopens_without_read"] = cov.Get("reopen_without_read")
	ev.Coverage["reopens_on_crash_image_inside_delete"] = cov.Get("reopen_on_crash_image_inside_delete")
	ev.Coverage["crash_image_temp_file_counts"] = cov.SetMembers("crash_image_temp_files", 6)
	ev.Coverage["multi_pass_calls_stopped_by_backoff"] = cov.Get("multi_stopped")
	if cfg.Property == "C20" {
		ev.Coverage["backup_vs_delete"] = cov.Counts("c20conc.")
		ev.Coverage["backups_through_readonly_handle"] = cov.Get("backups_through_readonly_handle")
		ev.Coverage["histories_with_unclean_directory_spelling"] = cov.Get("histories_with_unclean_directory_spelling")
	}
	ev.Coverage["samples"] = cov.Samples()
	for k, v := range cov.Counts("c1") {
		ev.Coverage["c1"+k] = v
	}
}

func runReplay(cfg *RunCfg, rep *Reporter, cov *Cov) int {
	b, err := os.ReadFile(cfg.Replay)
	if err != nil {
		fmt.Fprintln(os.Stderr, err)
		return 2
	}
	var file struct {
		Engine    string `json:"engine"`
		Tier      string `json:"tier"`
		Violation struct {
			Property string          `json:"property"`
			Sig      string          `json:"signature"`
			Replay   json.RawMessage `json:"replay"`
		} `json:"violation"`
	}
	if err := json.Unmarshal(b, &file); err != nil {
		fmt.Fprintln(os.Stderr, err)
		return 2
	}
	cfg.Property = file.Violation.Property
	cfg.Tier = file.Tier
	switch {
	case strings.HasPrefix(file.Violation.Sig, "histmon|"):
		replayHistory(cfg, rep, cov, file.Violation.Replay)
	default:
		fmt.Fprintf(os.Stderr, "replay: signatures of kind %q are replayed by re-running the check with the recorded seed (see the replay file)\n", strings.SplitN(file.Violation.Sig, "|", 2)[0])
		return 2
	}
	ev := &Evidence{Coverage: map[string]any{}}
	cfg.Replays = filepath.Join(cfg.Scratch, "replays")
	code := rep.Finish(ev)
	if code == 0 {
		fmt.Println("replay: no violation reproduced")
	}
	return code
}
