package main

import (
	"bytes"
	"fmt"
	"hash/crc32"
	"os"
	"path/filepath"
	"strings"

	"github.com/klev-dev/klevdb"

	"verifharness/ref"
)

// Fail is one oracle failure, before it is attributed to a property.
type Fail struct {
	Sig    string
	What   string
	Detail any
}

func failf(sig string, format string, a ...any) *Fail {
	return &Fail{Sig: sig, What: fmt.Sprintf(format, a...)}
}

// ---------------------------------------------------------------------------------------
// scan: iterate Consume from OffsetOldest feeding next back

func scanLog(l klevdb.Log, batch int64, limit int) ([]ref.Msg, int64, *Fail) {
	var out []ref.Msg
	off := klevdb.OffsetOldest
	for iter := 0; ; iter++ {
		if iter > limit {
			return out, off, failf("scan:no-termination", "scan did not terminate after %d Consume calls (cursor %d)", iter, off)
		}
		next, ms, err := kConsume(l, off, batch)
		if err != nil {
			if isPanic(err) {
				return out, off, &Fail{Sig: "scan:panic:" + panicFrame(err), What: fmt.Sprintf("Consume(%d,%d) panicked: %v", off, batch, err)}
			}
			return out, off, failf("scan:error:"+errClass(err), "Consume(%d,%d) failed during scan: %s", off, batch, errText(err))
		}
		out = append(out, toRefs(ms)...)
		if len(ms) == 0 {
			nx, err := kNext(l)
			if err != nil {
				return out, off, failf("scan:nextoffset-error", "NextOffset failed: %s", errText(err))
			}
			if next == nx {
				return out, next, nil
			}
			if next <= off && off >= 0 {
				return out, next, failf("scan:stuck", "Consume(%d,%d) returned no messages and next=%d below NextOffset=%d: cursor is stuck", off, batch, next, nx)
			}
		}
		off = next
	}
}

// compareSeq compares a scanned sequence with the expected live list.
func compareSeq(got, want []ref.Msg) *Fail {
	for i := 1; i < len(got); i++ {
		if got[i].Offset <= got[i-1].Offset {
			return failf("scan:order", "scan offsets not strictly increasing: %d after %d", got[i].Offset, got[i-1].Offset)
		}
	}
	i, j := 0, 0
	for i < len(got) && j < len(want) {
		switch {
		case got[i].Offset == want[j].Offset:
			if !got[i].Equal(want[j]) {
				return failf("scan:altered", "message at offset %d altered: got %v want %v", got[i].Offset, got[i], want[j])
			}
			if f := absentForm(got[i]); f != "" {
				return failf("scan:altered:"+f, "message at offset %d is returned with an %s: a missing key or value is nil in every format version (the library itself tests Value == nil for tombstones)", got[i].Offset, f)
			}
			i++
			j++
		case got[i].Offset < want[j].Offset:
			return failf("scan:extra", "scan returned offset %d which is not live in the model", got[i].Offset)
		default:
			return failf("scan:missing", "live offset %d missing from scan (scan continues with %d)", want[j].Offset, got[i].Offset)
		}
	}
	if i < len(got) {
		return failf("scan:extra", "scan returned offset %d which is not live in the model", got[i].Offset)
	}
	if j < len(want) {
		return failf("scan:missing", "live offset %d missing from scan (scan ended)", want[j].Offset)
	}
	return nil
}

// ---------------------------------------------------------------------------------------
// layout predicate used in signatures: describes the segment layout class of a directory

type Layout struct {
	Segs      int
	HeadEmpty bool
	HeadBase  int64
	Bases     []int64
	Temp      int
}

func layoutOf(dir string) Layout {
	segs, other, err := listSegs(dir)
	var l Layout
	if err != nil {
		return l
	}
	l.Segs = len(segs)
	l.Temp = len(other)
	for _, s := range segs {
		l.Bases = append(l.Bases, s.Base)
	}
	if len(segs) > 0 {
		h := segs[len(segs)-1]
		l.HeadEmpty = h.LogSize <= ref.FileHeaderSize
		l.HeadBase = h.Base
	}
	return l
}

func (l Layout) Pred() string {
	var p []string
	if l.HeadEmpty {
		p = append(p, "head_empty")
	}
	if l.Segs > 1 {
		p = append(p, "multi_segment")
	} else {
		p = append(p, "single_segment")
	}
	return strings.Join(p, "&")
}

// ---------------------------------------------------------------------------------------
// C03 consume grid

func consumeCell(l klevdb.Log, m *ref.Model, off, max int64) *Fail {
	next, msgsK, err := kConsume(l, off, max)
	if isPanic(err) {
		return &Fail{Sig: "consume:panic:" + panicFrame(err), What: fmt.Sprintf("Consume(%d,%d) panicked: %v", off, max, err)}
	}
	return judgeConsume(m, off, max, next, toRefs(msgsK), errClass(err), errText(err))
}

// judgeConsume is the acceptance predicate of C03 for one observed Consume result.
func judgeConsume(m *ref.Model, off, max int64, next int64, msgs []ref.Msg, cls, etext string) *Fail {
	if off > m.Next {
		if cls != "ErrInvalidOffset" {
			return failf("consume:beyond-next:"+cls, "Consume(%d,%d) with NextOffset=%d: want ErrInvalidOffset, got next=%d n=%d err=%s", off, max, m.Next, next, len(msgs), etext)
		}
		return nil
	}
	if cls != "nil" {
		return failf("consume:error:"+cls, "Consume(%d,%d) with NextOffset=%d failed: %s", off, max, m.Next, etext)
	}
	if off == klevdb.OffsetNewest {
		if next != m.Next || len(msgs) != 0 {
			return failf("consume:newest", "Consume(OffsetNewest,%d): want (%d, none) got (%d, %d msgs)", max, m.Next, next, len(msgs))
		}
		return nil
	}
	i := 0
	if off >= 0 {
		i = m.IdxAtOrAfter(off)
	}
	k := len(msgs)
	if int64(k) > max {
		return failf("consume:too-many", "Consume(%d,%d) returned %d messages", off, max, k)
	}
	if i+k > len(m.Live) {
		return failf("consume:not-a-run", "Consume(%d,%d) returned %d messages, only %d live at or after it", off, max, k, len(m.Live)-i)
	}
	for j := 0; j < k; j++ {
		if !msgs[j].Equal(m.Live[i+j]) {
			return failf("consume:not-a-run", "Consume(%d,%d) message %d is %v, want %v (contiguous run of live messages from the first at/after the offset)", off, max, j, msgs[j], m.Live[i+j])
		}
	}
	if k > 0 {
		if next != msgs[k-1].Offset+1 {
			return failf("consume:next-after-run", "Consume(%d,%d) returned next=%d, last message %d", off, max, next, msgs[k-1].Offset)
		}
		return nil
	}
	// nothing returned
	if next > m.Next {
		return failf("consume:next-beyond", "Consume(%d,%d) returned next=%d > NextOffset=%d", off, max, next, m.Next)
	}
	if i < len(m.Live) && m.Live[i].Offset < next {
		return failf("consume:steps-over", "Consume(%d,%d) returned nothing and next=%d, stepping over live offset %d", off, max, next, m.Live[i].Offset)
	}
	if i == len(m.Live) && next != m.Next {
		return failf("consume:caught-up", "Consume(%d,%d) caught up (no live message at/after) but next=%d != NextOffset=%d", off, max, next, m.Next)
	}
	return nil
}

// consumeIterate runs the feed-back iteration for one maxCount and checks it visits live exactly once.
func consumeIterate(l klevdb.Log, m *ref.Model, max int64) *Fail {
	got, end, f := scanLog(l, max, len(m.Live)+int(m.Next)+16)
	if f != nil {
		f.Sig = "iterate:" + f.Sig
		return f
	}
	if f := compareSeq(got, m.Live); f != nil {
		f.Sig = "iterate:" + f.Sig
		return f
	}
	if end != m.Next {
		return failf("iterate:end", "iteration with maxCount=%d stopped at %d, NextOffset=%d", max, end, m.Next)
	}
	return nil
}

// offsetClass classifies an offset of the C03/C04 grids for coverage accounting.
func offsetClass(m *ref.Model, lay Layout, off int64) string {
	switch {
	case off < 0:
		return "relative"
	case off > m.Next:
		return "beyond-next"
	case off == m.Next:
		return "at-next"
	}
	if len(m.Live) == 0 {
		return "hole-all-deleted"
	}
	if off < m.Live[0].Offset {
		return "before-first-live"
	}
	if m.IsLive(off) {
		for _, b := range lay.Bases {
			if b == off {
				return "live-segment-first"
			}
		}
		return "live"
	}
	if off > m.Live[len(m.Live)-1].Offset {
		if lay.HeadEmpty && off >= lay.HeadBase {
			return "hole-in-empty-head"
		}
		return "hole-after-last-live"
	}
	// a hole between live messages: does it touch a segment boundary?
	i := m.IdxAtOrAfter(off)
	lo, hi := m.Live[i-1].Offset, m.Live[i].Offset
	for _, b := range lay.Bases {
		if b > lo && b <= hi {
			return "hole-across-segment-boundary"
		}
	}
	return "hole-inside-segment"
}

// ---------------------------------------------------------------------------------------
// C04 get cell

func getCell(l klevdb.Log, m *ref.Model, off int64) *Fail {
	msg, err := kGet(l, off)
	if isPanic(err) {
		return &Fail{Sig: "get:panic:" + panicFrame(err), What: fmt.Sprintf("Get(%d) panicked: %v", off, err)}
	}
	return judgeGet(m, off, toRef(msg), errClass(err), errText(err))
}

// judgeGet is the acceptance predicate of C04 for one observed Get result.
func judgeGet(m *ref.Model, off int64, got ref.Msg, cls, etext string) *Fail {
	switch {
	case off == klevdb.OffsetOldest || off == klevdb.OffsetNewest:
		name := "OffsetOldest"
		if off == klevdb.OffsetNewest {
			name = "OffsetNewest"
		}
		if len(m.Live) == 0 {
			if cls != "ErrInvalidOffset" {
				return failf("get:"+name+":empty-log:"+cls, "Get(%s) on a log without live messages: want ErrInvalidOffset, got %s %s", name, cls, etext)
			}
			return nil
		}
		want := m.Live[0]
		if off == klevdb.OffsetNewest {
			want = m.Live[len(m.Live)-1]
		}
		if cls != "nil" {
			return failf("get:"+name+":"+cls, "Get(%s): want message %d, got error %s", name, want.Offset, etext)
		}
		if !got.Equal(want) {
			return failf("get:"+name+":wrong-message", "Get(%s): want %v got %v", name, want, got)
		}
		return nil
	case off < 0:
		return nil
	case off >= m.Next:
		if cls != "ErrInvalidOffset" {
			return failf("get:unassigned:"+cls, "Get(%d) with NextOffset=%d: want ErrInvalidOffset, got %s %s", off, m.Next, cls, etext)
		}
		return nil
	}
	if want, ok := m.Get(off); ok {
		if cls != "nil" {
			return failf("get:live:"+cls, "Get(%d) of a live message failed: %s", off, etext)
		}
		if !got.Equal(want) {
			return failf("get:live:wrong-message", "Get(%d): want %v got %v", off, want, got)
		}
		return nil
	}
	if cls != "ErrNotFound" {
		return failf("get:deleted:"+cls, "Get(%d) of an assigned but deleted offset: want ErrNotFound, got %s %s", off, cls, etext)
	}
	return nil
}

// ---------------------------------------------------------------------------------------
// C09 key lookups

func keyName(k []byte) string {
	if k == nil {
		return "<nil>"
	}
	return fmt.Sprintf("%q", k)
}

func getByKeyCell(l klevdb.Log, m *ref.Model, key []byte) *Fail {
	msg, err := kGetByKey(l, key)
	off, err2 := kOffsetByKey(l, key)
	if isPanic(err) || isPanic(err2) {
		e := err
		if !isPanic(e) {
			e = err2
		}
		return &Fail{Sig: "getbykey:panic:" + panicFrame(e), What: fmt.Sprintf("GetByKey(%s) panicked: %v", keyName(key), e)}
	}
	if !m.Cfg.Keys {
		if errClass(err) != "ErrNoIndex" || errClass(err2) != "ErrNoIndex" {
			return failf("getbykey:noindex:"+errClass(err), "GetByKey/OffsetByKey without key index: want ErrNoIndex, got %s / %s", errClass(err), errClass(err2))
		}
		return nil
	}
	want, ok := m.LastWithKey(key)
	if !ok {
		if errClass(err) != "ErrNotFound" {
			if err == nil {
				return failf("getbykey:absent:got-message", "GetByKey(%s): no live message has this key, got %v", keyName(key), toRef(msg))
			}
			return failf("getbykey:absent:"+errClass(err), "GetByKey(%s): want ErrNotFound, got %s", keyName(key), errText(err))
		}
		if errClass(err2) != "ErrNotFound" {
			return failf("offsetbykey:absent:"+errClass(err2), "OffsetByKey(%s): want ErrNotFound, got off=%d %s", keyName(key), off, errText(err2))
		}
		return nil
	}
	if err != nil {
		return failf("getbykey:present:"+errClass(err), "GetByKey(%s): want message %d, got error %s", keyName(key), want.Offset, errText(err))
	}
	if !toRef(msg).Equal(want) {
		sig := "getbykey:wrong-message"
		if !bytes.Equal(msg.Key, key) {
			sig = "getbykey:other-key"
		}
		return failf(sig, "GetByKey(%s): want %v got %v", keyName(key), want, toRef(msg))
	}
	if err2 != nil || off != want.Offset {
		return failf("offsetbykey:mismatch", "OffsetByKey(%s): want %d got %d %s", keyName(key), want.Offset, off, errText(err2))
	}
	return nil
}

// consumeByKeyCell checks one ConsumeByKey call at a cursor.
func consumeByKeyCell(l klevdb.Log, m *ref.Model, key []byte, off, max int64) (int64, []ref.Msg, *Fail) {
	next, msgsK, err := kConsumeByKey(l, key, off, max)
	if isPanic(err) {
		return 0, nil, &Fail{Sig: "consumebykey:panic:" + panicFrame(err), What: fmt.Sprintf("ConsumeByKey(%s,%d,%d) panicked: %v", keyName(key), off, max, err)}
	}
	if !m.Cfg.Keys {
		if errClass(err) != "ErrNoIndex" {
			return 0, nil, failf("consumebykey:noindex:"+errClass(err), "ConsumeByKey without key index: want ErrNoIndex, got %s", errClass(err))
		}
		return 0, nil, nil
	}
	if err != nil {
		return 0, nil, failf("consumebykey:error:"+errClass(err), "ConsumeByKey(%s,%d,%d) failed: %s", keyName(key), off, max, errText(err))
	}
	msgs := toRefs(msgsK)
	if off == klevdb.OffsetNewest {
		if next != m.Next || len(msgs) != 0 {
			return next, msgs, failf("consumebykey:newest", "ConsumeByKey(OffsetNewest): want (%d, none) got (%d, %d msgs)", m.Next, next, len(msgs))
		}
		return next, msgs, nil
	}
	if int64(len(msgs)) > max {
		return next, msgs, failf("consumebykey:too-many", "ConsumeByKey(%s,%d,%d) returned %d messages", keyName(key), off, max, len(msgs))
	}
	// expected: the live messages with this key at/after the cursor, in order
	var want []ref.Msg
	for _, x := range m.Live {
		if (off < 0 || x.Offset >= off) && bytes.Equal(x.Key, key) {
			want = append(want, x)
		}
	}
	for j, g := range msgs {
		if !bytes.Equal(g.Key, key) {
			return next, msgs, failf("consumebykey:other-key", "ConsumeByKey(%s,%d,%d) returned message %d with key %s", keyName(key), off, max, g.Offset, keyName(g.Key))
		}
		if j >= len(want) || !g.Equal(want[j]) {
			w := "nothing"
			if j < len(want) {
				w = want[j].String()
			}
			return next, msgs, failf("consumebykey:not-next-match", "ConsumeByKey(%s,%d,%d) result %d is %v, want %s", keyName(key), off, max, j, g, w)
		}
	}
	if next > m.Next {
		return next, msgs, failf("consumebykey:next-beyond", "ConsumeByKey(%s,%d,%d) next=%d > NextOffset=%d", keyName(key), off, max, next, m.Next)
	}
	if len(msgs) > 0 && next <= msgs[len(msgs)-1].Offset {
		return next, msgs, failf("consumebykey:next-not-after", "ConsumeByKey(%s,%d,%d) next=%d not after last returned %d", keyName(key), off, max, next, msgs[len(msgs)-1].Offset)
	}
	// no matching live message may be skipped below the returned next
	if len(msgs) < len(want) && want[len(msgs)].Offset < next {
		return next, msgs, failf("consumebykey:skips", "ConsumeByKey(%s,%d,%d) returned %d msgs and next=%d, skipping live match %d", keyName(key), off, max, len(msgs), next, want[len(msgs)].Offset)
	}
	if len(want) == 0 && len(msgs) == 0 && next != m.Next {
		// nothing at/after the cursor: the property only fixes the end of an iteration (checked there)
		_ = next
	}
	return next, msgs, nil
}

func consumeByKeyIterate(l klevdb.Log, m *ref.Model, key []byte, max int64) *Fail {
	off := klevdb.OffsetOldest
	var got []ref.Msg
	for iter := 0; ; iter++ {
		if iter > len(m.Live)+int(m.Next)+16 {
			return failf("consumebykey:iterate:no-termination", "ConsumeByKey(%s) iteration did not terminate", keyName(key))
		}
		next, msgs, f := consumeByKeyCell(l, m, key, off, max)
		if f != nil {
			f.Sig = "iterate:" + f.Sig
			return f
		}
		if !m.Cfg.Keys {
			return nil
		}
		got = append(got, msgs...)
		if len(msgs) == 0 {
			if next == m.Next {
				break
			}
			if next <= off && off >= 0 {
				return failf("consumebykey:iterate:stuck", "ConsumeByKey(%s,%d,%d) returned nothing and next=%d < NextOffset=%d", keyName(key), off, max, next, m.Next)
			}
		}
		off = next
	}
	want := m.WithKey(key)
	if f := compareSeq(got, want); f != nil {
		f.Sig = "consumebykey:iterate:" + f.Sig
		return f
	}
	return nil
}

// ---------------------------------------------------------------------------------------
// C10 time lookups

func getByTimeCell(l klevdb.Log, m *ref.Model, t int64) *Fail {
	msg, err := kGetByTime(l, t)
	off, mt, err2 := kOffsetByTime(l, t)
	if isPanic(err) || isPanic(err2) {
		e := err
		if !isPanic(e) {
			e = err2
		}
		return &Fail{Sig: "getbytime:panic:" + panicFrame(e), What: fmt.Sprintf("GetByTime(%d) panicked: %v", t, e)}
	}
	if !m.Cfg.Times {
		if errClass(err) != "ErrNoIndex" || errClass(err2) != "ErrNoIndex" {
			return failf("getbytime:noindex:"+errClass(err), "GetByTime/OffsetByTime without time index: want ErrNoIndex, got %s / %s", errClass(err), errClass(err2))
		}
		return nil
	}
	if errClass(err) != errClass(err2) || (err == nil && (off != msg.Offset || mt != msg.Time.UnixMicro())) {
		return failf("offsetbytime:disagrees", "OffsetByTime(%d)=(%d,%d,%s) disagrees with GetByTime=(%d,%s)", t, off, mt, errClass(err2), msg.Offset, errClass(err))
	}
	if len(m.Live) == 0 {
		if c := errClass(err); c != "ErrNotFound" && c != "ErrInvalidOffset" {
			return failf("getbytime:empty-log:"+c, "GetByTime(%d) on a log without live messages: want ErrNotFound/ErrInvalidOffset, got %s %s", t, c, errText(err))
		}
		return nil
	}
	want, ok := m.FirstAtOrAfterTime(t)
	if !ok {
		if errClass(err) != "ErrNotFound" {
			if err == nil {
				return failf("getbytime:after-all:got-message", "GetByTime(%d): every live message is earlier, got %v", t, toRef(msg))
			}
			return failf("getbytime:after-all:"+errClass(err), "GetByTime(%d): every live message is earlier, want ErrNotFound, got %s", t, errText(err))
		}
		return nil
	}
	if err != nil {
		return failf("getbytime:present:"+errClass(err), "GetByTime(%d): want message %d (t=%d), got error %s", t, want.Offset, want.T, errText(err))
	}
	if !toRef(msg).Equal(want) {
		rel := "later"
		if msg.Offset < want.Offset {
			rel = "earlier"
		}
		return failf("getbytime:wrong-message:"+rel, "GetByTime(%d): want %v got %v", t, want, toRef(msg))
	}
	return nil
}

// timeSweep returns the query times for a model: from first-2 to last+2 at 1µs steps when the
// span is small, otherwise every message time -1,0,+1 and the midpoints.
func timeSweep(m *ref.Model, capN int) []int64 {
	if len(m.Live) == 0 {
		return []int64{0, 1700000000000000}
	}
	lo, hi := m.Live[0].T, m.Live[0].T
	for _, x := range m.Live {
		if x.T < lo {
			lo = x.T
		}
		if x.T > hi {
			hi = x.T
		}
	}
	var out []int64
	if hi-lo+5 <= int64(capN) && hi-lo >= 0 {
		for t := lo - 2; t <= hi+2; t++ {
			out = append(out, t)
		}
		return out
	}
	seen := map[int64]bool{}
	add := func(t int64) {
		if !seen[t] {
			seen[t] = true
			out = append(out, t)
		}
	}
	add(lo - 2)
	for i, x := range m.Live {
		add(x.T - 1)
		add(x.T)
		add(x.T + 1)
		if i > 0 {
			add(m.Live[i-1].T + (x.T-m.Live[i-1].T)/2)
		}
	}
	add(hi + 2)
	return out
}

// ---------------------------------------------------------------------------------------
// C13 Stat

func dirSizes(dir string) (nLogs int, total int64) {
	segs, _, err := listSegs(dir)
	if err != nil {
		return 0, 0
	}
	for _, s := range segs {
		nLogs++
		total += s.LogSize
		if s.HasIndex {
			total += s.IdxSize
		}
	}
	return
}

func statCell(l klevdb.Log, m *ref.Model, dir string) *Fail {
	st, err := kStat(l)
	if isPanic(err) {
		return &Fail{Sig: "stat:panic:" + panicFrame(err), What: fmt.Sprintf("Stat panicked: %v", err)}
	}
	if err != nil {
		return failf("stat:error:"+errClass(err), "Stat failed: %s", errText(err))
	}
	n, total := dirSizes(dir)
	if st.Messages != len(m.Live) {
		return failf("stat:messages", "Stat.Messages=%d, live messages=%d", st.Messages, len(m.Live))
	}
	if st.Size != total {
		return failf("stat:size", "Stat.Size=%d, segment files total %d bytes", st.Size, total)
	}
	if st.Segments != n {
		return failf("stat:segments", "Stat.Segments=%d, %d log files", st.Segments, n)
	}
	return nil
}

// ---------------------------------------------------------------------------------------
// disk audit with the reference codec

type SegAudit struct {
	Base     int64
	Version  ref.Version
	Msgs     []ref.Msg
	Spans    []ref.Span
	Clean    bool
	HeaderOK bool
	LogBytes []byte
	HasIndex bool
	IdxBytes []byte
	IdxVer   ref.Version
	IdxItems []ref.Item
	IdxErr   error
}

func auditDir(dir string, cfg ref.IndexCfg) ([]SegAudit, []string, error) {
	segs, other, err := listSegs(dir)
	if err != nil {
		return nil, nil, err
	}
	var out []SegAudit
	for _, s := range segs {
		a := SegAudit{Base: s.Base}
		a.LogBytes, err = os.ReadFile(filepath.Join(dir, s.LogName))
		if err != nil {
			return nil, nil, err
		}
		a.Version, a.Spans, _, a.Clean, a.HeaderOK = ref.ParseLog(a.LogBytes, s.Base)
		a.Msgs = ref.Msgs(a.Spans)
		if s.HasIndex {
			_, idxName := ref.SegName(s.Base)
			a.IdxBytes, err = os.ReadFile(filepath.Join(dir, idxName))
			if err != nil {
				return nil, nil, err
			}
			a.HasIndex = true
			a.IdxVer, a.IdxItems, a.IdxErr = ref.DecodeIndex(a.IdxBytes, s.Base, cfg)
		}
		out = append(out, a)
	}
	return out, other, nil
}

// ---------------------------------------------------------------------------------------
// full observation as a list of "call => result" lines, for differential comparisons

type ObsOpts struct {
	Keys     [][]byte
	Times    []int64
	MaxOff   int64 // offsets 0..MaxOff are probed
	WithSize bool
	Light    bool // fewer grid cells
}

func digest(m ref.Msg) string {
	d := fmt.Sprintf("%d@%d/%08x/%08x", m.Offset, m.T, crc32.ChecksumIEEE(m.Key), crc32.ChecksumIEEE(m.Value))
	if f := absentForm(m); f != "" {
		d += "!" + f
	}
	return d
}

// absentForm reports a missing key or value that a read returned as an empty non-nil slice instead
// of nil. Both format versions return nil; callers (compact.go among them) test == nil.
func absentForm(m ref.Msg) string {
	switch {
	case m.Key != nil && len(m.Key) == 0:
		return "empty-non-nil-key"
	case m.Value != nil && len(m.Value) == 0:
		return "empty-non-nil-value"
	}
	return ""
}

func digests(ms []ref.Msg) string {
	var sb strings.Builder
	for i, m := range ms {
		if i > 0 {
			sb.WriteByte(' ')
		}
		sb.WriteString(digest(m))
	}
	return sb.String()
}

func errLine(err error) string {
	if err == nil {
		return "ok"
	}
	if isPanic(err) {
		return "panic:" + panicFrame(err)
	}
	return errClass(err)
}

func observe(l klevdb.Log, o ObsOpts) []string {
	var out []string
	add := func(format string, a ...any) { out = append(out, fmt.Sprintf(format, a...)) }
	// Stat first: before any read has touched (and lazily rebuilt) a segment
	if st, err := kStat(l); err != nil {
		add("Stat(first) => %s", errLine(err))
	} else {
		add("Stat(first) => segs=%d msgs=%d", st.Segments, st.Messages)
	}
	nx, err := kNext(l)
	add("NextOffset => %d %s", nx, errLine(err))
	msgs, end, f := scanLog(l, 7, int(o.MaxOff)*2+64)
	if f != nil {
		add("scan => FAIL %s", f.Sig)
	} else {
		add("scan => end=%d [%s]", end, digests(msgs))
	}
	maxes := []int64{1, 3, 40}
	if o.Light {
		maxes = []int64{2}
	}
	for off := int64(-3); off <= o.MaxOff; off++ {
		for _, mx := range maxes {
			n, ms, err := kConsume(l, off, mx)
			if err != nil {
				add("Consume(%d,%d) => %s", off, mx, errLine(err))
			} else {
				add("Consume(%d,%d) => %d [%s]", off, mx, n, digests(toRefs(ms)))
			}
		}
		if off >= -2 {
			m, err := kGet(l, off)
			if err != nil {
				add("Get(%d) => %s", off, errLine(err))
			} else {
				add("Get(%d) => %s", off, digest(toRef(m)))
			}
		}
	}
	for _, k := range o.Keys {
		m, err := kGetByKey(l, k)
		if err != nil {
			add("GetByKey(%s) => %s", keyName(k), errLine(err))
		} else {
			add("GetByKey(%s) => %s", keyName(k), digest(toRef(m)))
		}
		off, err := kOffsetByKey(l, k)
		add("OffsetByKey(%s) => %d %s", keyName(k), off, errLine(err))
		cur := klevdb.OffsetOldest
		for it := 0; it < int(o.MaxOff)+8; it++ {
			n, ms, err := kConsumeByKey(l, k, cur, 2)
			if err != nil {
				add("ConsumeByKey(%s,%d,2) => %s", keyName(k), cur, errLine(err))
				break
			}
			add("ConsumeByKey(%s,%d,2) => %d [%s]", keyName(k), cur, n, digests(toRefs(ms)))
			if len(ms) == 0 && (n <= cur || n >= nx) {
				break
			}
			cur = n
		}
	}
	for _, t := range o.Times {
		m, err := kGetByTime(l, t)
		if err != nil {
			add("GetByTime(%d) => %s", t, errLine(err))
		} else {
			add("GetByTime(%d) => %s", t, digest(toRef(m)))
		}
		off, mt, err := kOffsetByTime(l, t)
		add("OffsetByTime(%d) => %d %d %s", t, off, mt, errLine(err))
	}
	st, err := kStat(l)
	if err != nil {
		add("Stat => %s", errLine(err))
	} else if o.WithSize {
		add("Stat => segs=%d msgs=%d size=%d", st.Segments, st.Messages, st.Size)
	} else {
		add("Stat => segs=%d msgs=%d", st.Segments, st.Messages)
	}
	return out
}

// diffObs returns the first differing line of two observations.
func diffObs(a, b []string) (string, bool) {
	n := len(a)
	if len(b) < n {
		n = len(b)
	}
	for i := 0; i < n; i++ {
		if a[i] != b[i] {
			return fmt.Sprintf("%q vs %q", a[i], b[i]), true
		}
	}
	if len(a) != len(b) {
		return fmt.Sprintf("observation lengths differ: %d vs %d", len(a), len(b)), true
	}
	return "", false
}

// callOf extracts the call name of an observation line ("Get(3) => x" -> "Get").
func callOf(line string) string {
	if i := strings.IndexAny(line, "( "); i > 0 {
		return line[:i]
	}
	return line
}
