package main

import (
	"bytes"
	"fmt"
	"sort"
	"time"

	"github.com/anishathalye/porcupine"
	"github.com/klev-dev/klevdb"

	"verifharness/ref"
)

// Oracles over a recorded concurrent history: stream monitors (linear time) and a porcupine
// linearizability check against the sequential reference model.

type concHist struct {
	id    string
	cfg   ref.IndexCfg
	ops   []*cOp
	table map[int64]ref.Msg // offset -> published message
	next  int64             // largest returned Publish next
}

func (h *concHist) sorted() []*cOp {
	ops := append([]*cOp(nil), h.ops...)
	sort.SliceStable(ops, func(i, j int) bool { return ops[i].Call < ops[j].Call })
	return ops
}

func okReadErr(cls string) bool {
	return cls == "" || cls == "ErrNotFound" || cls == "ErrInvalidOffset"
}

// streamMonitors runs the linear-time checks; it also builds h.table and h.next.
func (h *concHist) streamMonitors() *Fail {
	h.table = map[int64]ref.Msg{}
	ops := h.sorted()
	// 1. conservation: publishers got disjoint consecutive ranges whose union is [0, finalNext)
	type rng struct {
		lo, hi int64
		op     *cOp
	}
	var ranges []rng
	for _, o := range ops {
		if !o.Done {
			continue
		}
		switch o.Kind {
		case "publish":
			if o.Err != "" {
				return failf("error:Publish:"+o.Err, "Publish failed while other calls were in progress: %s", o.ErrText)
			}
			n := int64(len(o.Pub))
			for i, m := range o.Pub {
				if m.Offset != o.Next-n+int64(i) {
					return failf("publish:written-back-offset", "%s: message %d got offset %d, the returned next offset %d implies %d", o, i, m.Offset, o.Next, o.Next-n+int64(i))
				}
				if prev, dup := h.table[m.Offset]; dup {
					return failf("publish:offset-assigned-twice", "offset %d assigned to two messages (%v and %v)", m.Offset, prev, m)
				}
				h.table[m.Offset] = m
			}
			ranges = append(ranges, rng{o.Next - n, o.Next, o})
			if o.Next > h.next {
				h.next = o.Next
			}
		case "sync", "next", "stat", "gc":
			if o.Err != "" {
				return failf("error:"+o.Kind+":"+o.Err, "%s failed while other calls were in progress: %s", o.Kind, o.ErrText)
			}
		case "delete":
			if o.Err != "" && !(o.Err == "ErrNotFound" || o.Err == "ErrInvalidOffset") {
				return failf("error:Delete:"+o.Err, "Delete failed while other calls were in progress: %s", o.ErrText)
			}
		default:
			if !okReadErr(o.Err) {
				return failf("error:"+o.Kind+":"+o.Err, "%s failed while other calls were in progress: %s", o, o.ErrText)
			}
		}
	}
	sort.Slice(ranges, func(i, j int) bool {
		if ranges[i].lo != ranges[j].lo {
			return ranges[i].lo < ranges[j].lo
		}
		return ranges[i].hi < ranges[j].hi
	})
	var cur int64
	for _, r := range ranges {
		if r.lo == r.hi {
			continue
		}
		if r.lo != cur {
			return failf("publish:ranges-not-dense", "publishers' offset ranges are not disjoint and consecutive: range [%d,%d) follows offset %d", r.lo, r.hi, cur)
		}
		cur = r.hi
	}
	// 2. every message any call returned equals the published message of that offset;
	// 6. deletes report requested, published messages, each at most once
	deletedBy := map[int64]*cOp{}
	for _, o := range ops {
		if !o.Done || o.Kind == "publish" {
			continue
		}
		for _, m := range o.Out {
			w, ok := h.table[m.Offset]
			if !ok {
				return failf("read:unpublished-offset:"+o.Kind, "%s returned offset %d which no Publish was given", o, m.Offset)
			}
			if !w.Equal(m) {
				return failf("read:altered:"+o.Kind, "%s returned %v, the published message is %v", o, m, w)
			}
		}
		if o.Kind == "delete" {
			req := offsetSet(o.Offsets)
			for _, m := range o.Out {
				if _, ok := req[m.Offset]; !ok {
					return failf("delete:not-requested", "%s reported an offset that was not requested", o)
				}
				if prev, dup := deletedBy[m.Offset]; dup {
					return failf("delete:reported-twice", "offset %d reported deleted by two calls (%s and %s)", m.Offset, prev, o)
				}
				deletedBy[m.Offset] = o
			}
		}
	}
	// 4. no unexplained gap inside one Consume result; 3'. no read returns a message after a Delete
	// that reported it has returned
	for _, o := range ops {
		if !o.Done {
			continue
		}
		for _, m := range o.Out {
			if o.Kind == "delete" {
				continue
			}
			if d, gone := deletedBy[m.Offset]; gone && d.Ret < o.Call {
				return failf("read:after-delete:"+o.Kind, "%s returned offset %d although %s had already returned", o, m.Offset, d)
			}
		}
		if o.Kind != "consume" || len(o.Out) == 0 {
			continue
		}
		lo := o.Out[0].Offset
		if o.Off >= 0 && o.Off < lo {
			lo = o.Off
		}
		seen := map[int64]bool{}
		for _, m := range o.Out {
			seen[m.Offset] = true
		}
		for x := lo; x < o.Out[len(o.Out)-1].Offset; x++ {
			if seen[x] {
				continue
			}
			if _, pub := h.table[x]; !pub {
				// an offset nobody published cannot be below a published one (ranges are dense), unless below the first
				continue
			}
			d, gone := deletedBy[x]
			if !gone || d.Call > o.Ret {
				return failf("consume:unexplained-gap", "%s skipped offset %d which no Delete invoked before it returned had reported", o, x)
			}
		}
		for i := 1; i < len(o.Out); i++ {
			if o.Out[i].Offset <= o.Out[i-1].Offset {
				return failf("consume:order", "%s returned offsets out of order", o)
			}
		}
	}
	// 9. Stat.Messages within the bounds real time allows (Stat is exempt from linearizability only in
	// that it may count a batch that is still being appended; it must still describe the log)
	for _, o := range ops {
		if !o.Done || o.Kind != "stat" || o.Err != "" {
			continue
		}
		var lo, hi int
		for _, p := range ops {
			if !p.Done {
				continue
			}
			switch p.Kind {
			case "publish":
				if p.Ret < o.Call {
					lo += len(p.Pub)
				}
				if p.Call < o.Ret {
					hi += len(p.Pub)
				}
			case "delete":
				if p.Call < o.Ret {
					lo -= len(p.Out)
				}
				if p.Ret < o.Call {
					hi -= len(p.Out)
				}
			}
		}
		if o.Stat.Messages < lo || o.Stat.Messages > hi {
			return failf("stat:out-of-bounds", "Stat reported %d messages in %d segments; the publishes and deletes around the call allow only %d..%d", o.Stat.Messages, o.Stat.Segments, lo, hi)
		}
	}
	// 8. NextOffset / Sync within the bounds real time allows
	for _, o := range ops {
		if !o.Done || (o.Kind != "next" && o.Kind != "sync") {
			continue
		}
		var lo, hi int64
		for _, p := range ranges {
			if p.op.Ret < o.Call && p.hi > lo {
				lo = p.hi
			}
			if p.op.Call < o.Ret && p.hi > hi {
				hi = p.hi
			}
		}
		if o.Next < lo || o.Next > hi {
			return failf(o.Kind+":out-of-bounds", "%s returned %d; publishes that had returned before it imply >= %d, publishes invoked before it returned imply <= %d", o.Kind, o.Next, lo, hi)
		}
	}
	return nil
}

// expectedFinal: published minus reported-deleted.
func (h *concHist) expectedFinal() *ref.Model {
	gone := map[int64]bool{}
	for _, o := range h.ops {
		if o.Kind == "delete" {
			for _, m := range o.Out {
				gone[m.Offset] = true
			}
		}
	}
	m := &ref.Model{Cfg: h.cfg, Next: h.next}
	var offs []int64
	for o := range h.table {
		if !gone[o] {
			offs = append(offs, o)
		}
	}
	sort.Slice(offs, func(i, j int) bool { return offs[i] < offs[j] })
	for _, o := range offs {
		m.Live = append(m.Live, h.table[o])
	}
	return m
}

// ---------------------------------------------------------------------------------------
// porcupine

type linState struct {
	next int64
	live string // one byte per offset: '1' live, '0' not
}

func (s linState) model(h *concHist) *ref.Model {
	m := &ref.Model{Cfg: h.cfg, Next: s.next}
	for i := 0; i < len(s.live); i++ {
		if s.live[i] == '1' {
			m.Live = append(m.Live, h.table[int64(i)])
		}
	}
	return m
}

func (h *concHist) timesMonotone() bool {
	var offs []int64
	for o := range h.table {
		offs = append(offs, o)
	}
	sort.Slice(offs, func(i, j int) bool { return offs[i] < offs[j] })
	for i := 1; i < len(offs); i++ {
		if h.table[offs[i]].T < h.table[offs[i-1]].T {
			return false
		}
	}
	return true
}

func (h *concHist) step(st linState, o *cOp, mono bool) (bool, linState) {
	cls := o.Err
	if cls == "" {
		cls = "nil"
	}
	switch o.Kind {
	case "publish":
		n := int64(len(o.Pub))
		if o.Err != "" || o.Next != st.next+n {
			return false, st
		}
		nl := []byte(st.live)
		for int64(len(nl)) < st.next {
			nl = append(nl, '0')
		}
		for range o.Pub {
			nl = append(nl, '1')
		}
		return true, linState{o.Next, string(nl)}
	case "next", "sync":
		return o.Next == st.next, st
	case "gc":
		return true, st
	case "stat":
		return true, st // Stat may count a batch that is still being appended: excluded by the property
	case "delete":
		neg := false
		minOff := int64(1 << 62)
		for _, x := range o.Offsets {
			if x < 0 {
				neg = true
			}
			if x < minOff {
				minOff = x
			}
		}
		if neg {
			return o.Err == "ErrInvalidOffset" && len(o.Out) == 0, st
		}
		isLive := func(x int64) bool { return x >= 0 && x < int64(len(st.live)) && st.live[x] == '1' }
		if o.Err != "" {
			// not-found is what Delete answers when the lowest requested offset lies below the first segment
			return len(o.Out) == 0 && !isLive(minOff), st
		}
		nl := []byte(st.live)
		for _, m := range o.Out {
			if !isLive(m.Offset) {
				return false, st
			}
			nl[m.Offset] = '0'
		}
		return true, linState{st.next, string(nl)}
	}
	m := st.model(h)
	switch o.Kind {
	case "consume":
		return judgeConsume(m, o.Off, o.Max, o.Next, o.Out, cls, o.ErrText) == nil, st
	case "get":
		var g ref.Msg
		if len(o.Out) == 1 {
			g = o.Out[0]
		}
		return judgeGet(m, o.Off, g, cls, o.ErrText) == nil, st
	case "getbykey":
		w, ok := m.LastWithKey(o.Key)
		if !ok {
			return cls == "ErrNotFound", st
		}
		return cls == "nil" && len(o.Out) == 1 && o.Out[0].Equal(w), st
	case "getbytime":
		if !mono {
			return true, st
		}
		if len(m.Live) == 0 {
			return cls == "ErrNotFound" || cls == "ErrInvalidOffset", st
		}
		w, ok := m.FirstAtOrAfterTime(o.T)
		if !ok {
			return cls == "ErrNotFound", st
		}
		return cls == "nil" && len(o.Out) == 1 && o.Out[0].Equal(w), st
	case "consumebykey":
		if cls != "nil" {
			return false, st
		}
		if o.Off == klevdb.OffsetNewest {
			return o.Next == m.Next && len(o.Out) == 0, st
		}
		var want []ref.Msg
		for _, x := range m.Live {
			if (o.Off < 0 || x.Offset >= o.Off) && bytes.Equal(x.Key, o.Key) {
				want = append(want, x)
			}
		}
		if int64(len(o.Out)) > o.Max || len(o.Out) > len(want) || o.Next > m.Next {
			return false, st
		}
		for j, g := range o.Out {
			if !g.Equal(want[j]) {
				return false, st
			}
		}
		if len(o.Out) > 0 && o.Next <= o.Out[len(o.Out)-1].Offset {
			return false, st
		}
		if len(o.Out) < len(want) && want[len(o.Out)].Offset < o.Next {
			return false, st
		}
		return true, st
	}
	return true, st
}

// linearizable checks the history with porcupine. Result: "ok", "illegal", "unknown".
func (h *concHist) linearizable(timeout time.Duration) (string, string) {
	mono := h.timesMonotone()
	model := porcupine.Model{
		Init: func() interface{} { return linState{} },
		Step: func(state, input, output interface{}) (bool, interface{}) {
			ok, ns := h.step(state.(linState), input.(*cOp), mono)
			return ok, ns
		},
		DescribeOperation: func(input, output interface{}) string { return input.(*cOp).String() },
	}
	var hist []porcupine.Operation
	var open []*cOp
	var maxRet int64
	for _, o := range h.ops {
		if o.Done && o.Ret > maxRet {
			maxRet = o.Ret
		}
	}
	for _, o := range h.ops {
		if !o.Done {
			open = append(open, o)
			continue
		}
		hist = append(hist, porcupine.Operation{ClientId: o.Client, Input: o, Output: o, Call: o.Call, Return: o.Ret})
	}
	_ = open // calls that never returned took no observable effect we can judge; they are reported by the deadlock oracle
	res, info := porcupine.CheckOperationsVerbose(model, hist, timeout)
	switch res {
	case porcupine.Ok:
		return "ok", ""
	case porcupine.Unknown:
		return "unknown", ""
	}
	// witness: the longest linearizable prefix per partition is in info; describe the ops around the failure
	desc := ""
	for _, part := range info.PartialLinearizationsOperations() {
		best := 0
		for _, lin := range part {
			if len(lin) > best {
				best = len(lin)
			}
		}
		desc += fmt.Sprintf("longest linearizable prefix has %d of %d operations; ", best, len(hist))
		for _, lin := range part {
			if len(lin) == best {
				in := map[*cOp]bool{}
				for _, op := range lin {
					in[op.Input.(*cOp)] = true
				}
				n := 0
				for _, o := range h.sorted() {
					if o.Done && !in[o] && n < 6 {
						desc += "not linearized: " + o.String() + "; "
						n++
					}
				}
				break
			}
		}
	}
	return "illegal", desc
}
