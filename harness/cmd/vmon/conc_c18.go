package main

func runC18(cfg *RunCfg, rep *Reporter, cov *Cov, ev *Evidence) {}
