package main

import (
	"bytes"
	"context"
	"errors"
	"fmt"
	"os"
	"path/filepath"
	"strings"
	"sync/atomic"
	"time"

	"github.com/klev-dev/klevdb"

	"verifharness/ref"
)

// C18: blocking consume. Controlled placements inside the notifier's probe/park/broadcast windows
// and perturbed free-running schedules, both wrappers (OpenBlocking, OpenTBlocking), under -race.

func init() {
	props["C18"] = propInfo{Engine: "concmon", Level: "exploration",
		Rule:   "controlled phase: a waiter, publisher or closer is held inside one of the notifier / blocking-wrapper windows while up to two of {publish passing the offset, publish not passing, start another waiter, cancel, Close} run; perturb phase: up to 8 waiters and 4 publishers free-running with random yields/sleeps at the hook points. Oracles over the recorded events: immediate return never parks; a parked waiter returns only if a Publish/Close/cancel was invoked meanwhile; at quiescence no eligible waiter is parked (goroutine wait state); successful returns are linearizable Consume results (porcupine); cancel/closed errors. distinct_nontrivial = distinct (held actor, window, secondary sequence, waiter offset classes, wrapper) with the window reached + distinct perturb outcome classes",
		Assume: []string{"'stays blocked' and 'is woken' are decided from goroutine wait states ([select] inside notify.(*Offset).Wait) at quiescence, not from timeouts", "the eventuality 'every Publish wakes them' is decided in its bounded form: after all publishers returned, no waiter with an offset below NextOffset is parked"}}
}

// ---------------------------------------------------------------------------------------
// wrapper abstraction

type blockLog interface {
	Publish(msgs []ref.Msg) (int64, []ref.Msg, error)
	ConsumeBlocking(ctx context.Context, off, max int64) (int64, []ref.Msg, error)
	ConsumeByKeyBlocking(ctx context.Context, key []byte, off, max int64) (int64, []ref.Msg, error)
	Close() error
	Raw() klevdb.Log
	AsLog() klevdb.Log // the wrapper itself seen as a klevdb.Log (calls go through the wrapper, not Raw())
}

type rawBlock struct{ l klevdb.BlockingLog }

func (b rawBlock) Publish(msgs []ref.Msg) (int64, []ref.Msg, error) {
	km := make([]klevdb.Message, len(msgs))
	for i, m := range msgs {
		km[i] = klevdb.Message{Key: m.Key, Value: m.Value}
	}
	nx, err := b.l.Publish(km)
	return nx, toRefs(km), err
}
func (b rawBlock) ConsumeBlocking(ctx context.Context, off, max int64) (int64, []ref.Msg, error) {
	nx, ms, err := b.l.ConsumeBlocking(ctx, off, max)
	return nx, toRefs(ms), err
}
func (b rawBlock) ConsumeByKeyBlocking(ctx context.Context, key []byte, off, max int64) (int64, []ref.Msg, error) {
	nx, ms, err := b.l.ConsumeByKeyBlocking(ctx, key, off, max)
	return nx, toRefs(ms), err
}
func (b rawBlock) Close() error      { return b.l.Close() }
func (b rawBlock) Raw() klevdb.Log   { return b.l }
func (b rawBlock) AsLog() klevdb.Log { return b.l }

// poison is a value the typed wrapper's codec refuses to encode: a typed Publish containing it fails.
var poison = []byte("\xff\xfepoison")

type poisonCodec struct{}

func (poisonCodec) Encode(t []byte, empty bool) ([]byte, error) {
	if bytes.Equal(t, poison) {
		return nil, errors.New("poisonCodec: unencodable value")
	}
	if empty {
		return nil, nil
	}
	return t, nil
}

func (poisonCodec) Decode(b []byte) ([]byte, bool, error) { return b, b == nil, nil }

type typedBlock struct {
	l klevdb.TBlockingLog[[]byte, []byte]
}

func fromT(ms []klevdb.TMessage[[]byte, []byte]) []ref.Msg {
	out := make([]ref.Msg, len(ms))
	for i, m := range ms {
		out[i] = ref.Msg{Offset: m.Offset, T: m.Time.UnixMicro(), Key: m.Key, Value: m.Value}
	}
	return out
}

func (b typedBlock) Publish(msgs []ref.Msg) (int64, []ref.Msg, error) {
	tm := make([]klevdb.TMessage[[]byte, []byte], len(msgs))
	for i, m := range msgs {
		tm[i] = klevdb.TMessage[[]byte, []byte]{Key: m.Key, KeyEmpty: m.Key == nil, Value: m.Value, ValueEmpty: m.Value == nil}
	}
	nx, err := b.l.Publish(tm)
	if err != nil {
		return nx, nil, err
	}
	// the typed wrapper does not write offsets/times back: read them (sequentially consistent: own publish)
	out := make([]ref.Msg, len(msgs))
	for i := range msgs {
		off := nx - int64(len(msgs)) + int64(i)
		m, gerr := b.l.Raw().Get(off)
		if gerr == nil {
			out[i] = toRef(m)
		} else {
			out[i] = ref.Msg{Offset: off, Key: msgs[i].Key, Value: msgs[i].Value}
		}
	}
	return nx, out, nil
}
func (b typedBlock) ConsumeBlocking(ctx context.Context, off, max int64) (int64, []ref.Msg, error) {
	nx, ms, err := b.l.ConsumeBlocking(ctx, off, max)
	return nx, fromT(ms), err
}
func (b typedBlock) ConsumeByKeyBlocking(ctx context.Context, key []byte, off, max int64) (int64, []ref.Msg, error) {
	nx, ms, err := b.l.ConsumeByKeyBlocking(ctx, key, key == nil, off, max)
	return nx, fromT(ms), err
}
func (b typedBlock) Close() error      { return b.l.Close() }
func (b typedBlock) Raw() klevdb.Log   { return b.l.Raw() }
func (b typedBlock) AsLog() klevdb.Log { return &typedRaw{t: b.l} }

// innerShim sits between a blocking wrapper and the log it wraps and turns the wrapper's calls into
// the log into pause points (the harness's own, outside klevdb): a wrapper that consults the log at
// other moments than the unchanged one does (for instance on its first blocking call) can be held
// there.
type innerShim struct{ klevdb.Log }

func (s innerShim) NextOffset() (int64, error) {
	n, err := s.Log.NextOffset()
	hookAt("inner.nextOffset") // after the value was read: whoever asked now holds a value that can go stale
	return n, err
}

// openBlock opens the blocking wrapper: directly (OpenBlocking / OpenTBlocking) or, with wrap, by
// wrapping an already opened log (WrapBlocking / OpenT + WrapTBlocking).
func openBlock(dir string, typed bool, wrap bool) (blockLog, error) {
	opts := klevdb.Options{CreateDirs: true, KeyIndex: true, Rollover: 300}
	switch {
	case typed && wrap:
		raw, err := klevdb.Open(dir, opts)
		if err != nil {
			return nil, err
		}
		t, err := klevdb.WrapT[[]byte, []byte](innerShim{raw}, poisonCodec{}, poisonCodec{})
		if err != nil {
			raw.Close()
			return nil, err
		}
		l, err := klevdb.WrapTBlocking[[]byte, []byte](t)
		if err != nil {
			t.Close()
			return nil, err
		}
		return typedBlock{l}, nil
	case typed:
		l, err := klevdb.OpenTBlocking[[]byte, []byte](dir, opts, poisonCodec{}, poisonCodec{})
		if err != nil {
			return nil, err
		}
		return typedBlock{l}, nil
	case wrap:
		raw, err := klevdb.Open(dir, opts)
		if err != nil {
			return nil, err
		}
		l, err := klevdb.WrapBlocking(innerShim{raw})
		if err != nil {
			raw.Close()
			return nil, err
		}
		return rawBlock{l}, nil
	}
	l, err := klevdb.OpenBlocking(dir, opts)
	if err != nil {
		return nil, err
	}
	return rawBlock{l}, nil
}

// ---------------------------------------------------------------------------------------
// actors

type bActor struct {
	id     int
	kind   string // waiter publisher closer
	op     *cOp   // recorded call
	offCls string // waiter: below at beyond relative
	byKey  bool
	ctx    context.Context
	cancel context.CancelFunc
	hc     *hookClient
	gid    int64
	done   chan struct{}
	// cancel bookkeeping
	cancelCall atomic.Int64
	cancelled  atomic.Bool
	rawErr     error
	atNext     int64 // NextOffset known when the waiter was created (sequentially)
	expectFail bool  // publisher: the batch carries the poison value, the typed Publish must fail
}

type bRun struct {
	cfg     *RunCfg
	rep     *Reporter
	cov     *Cov
	l       blockLog
	dir     string
	typed   bool
	hm      *hookMode
	actors  []*bActor
	seq     int
	id      string
	closed  bool
	perturb bool
	preset  []*cOp
}

func (br *bRun) newActor(kind string) *bActor {
	a := &bActor{id: len(br.actors), kind: kind, done: make(chan struct{})}
	a.hc = &hookClient{id: a.id, points: map[string]int{}, hits: map[string]int{}, arrived: make(chan string, 1), release: make(chan struct{})}
	br.actors = append(br.actors, a)
	return a
}

func (br *bRun) pubMsgs(n int) []ref.Msg {
	var out []ref.Msg
	keys := []string{"a", "b"}
	for i := 0; i < n; i++ {
		br.seq++
		out = append(out, ref.Msg{Key: []byte(keys[br.seq%2]), Value: []byte(fmt.Sprintf("%s.%d", br.id, br.seq))})
	}
	return out
}

// presetPublish publishes sequentially before the concurrent part and records the call.
func (br *bRun) presetPublish(n int) (int64, error) {
	o := &cOp{Client: 99, Kind: "publish", N: n, Pub: br.pubMsgs(n)}
	o.Call = nowNS()
	nx, written, err := br.l.Publish(o.Pub)
	o.Ret = nowNS()
	o.Next = nx
	if err == nil {
		o.Pub = written
		o.OutOffs = ref.OffsetsOf(written)
	}
	o.Done = true
	br.preset = append(br.preset, o)
	return nx, err
}

// start launches the actor's call in its own goroutine (registered with the hook handler).
func (br *bRun) start(a *bActor, fn func()) {
	gch := make(chan int64, 1)
	go func() {
		g := goid()
		if !br.perturb {
			br.hm.mu.Lock()
			br.hm.dyn[g] = a.hc
			br.hm.mu.Unlock()
		}
		gch <- g
		fn()
		close(a.done)
	}()
	a.gid = <-gch
}

// errCustomCause is the cause given to half of the waiters' contexts: "a cancelled context yields
// its error" means ctx.Err() (context.Canceled), whatever cause the application attached.
var errCustomCause = errors.New("verif: application-level cancellation cause")

func waiterContext(id int) (context.Context, context.CancelFunc) {
	if id%2 == 1 {
		ctx, cancel := context.WithCancelCause(context.Background())
		return ctx, func() { cancel(errCustomCause) }
	}
	return context.WithCancel(context.Background())
}

func (br *bRun) startWaiter(a *bActor, off, max int64, key []byte) {
	a.ctx, a.cancel = waiterContext(a.id)
	a.op = &cOp{Client: a.id, Kind: "consume", Off: off, Max: max}
	if key != nil {
		a.op.Kind = "consumebykey"
		a.op.Key = key
		a.byKey = true
	}
	br.start(a, func() {
		o := a.op
		var err error
		o.Call = nowNS()
		if a.byKey {
			o.Next, o.Out, err = br.l.ConsumeByKeyBlocking(a.ctx, key, off, max)
		} else {
			o.Next, o.Out, err = br.l.ConsumeBlocking(a.ctx, off, max)
		}
		o.Ret = nowNS()
		o.OutOffs = ref.OffsetsOf(o.Out)
		a.rawErr = err
		if err != nil {
			o.Err = errClass(err)
			o.ErrText = errText(err)
			o.Out, o.OutOffs = nil, nil
		}
		o.Done = true
	})
}

func (br *bRun) startPublisher(a *bActor, n int) {
	a.op = &cOp{Client: a.id, Kind: "publish", N: n, Pub: br.pubMsgs(n)}
	br.start(a, func() {
		o := a.op
		o.Call = nowNS()
		nx, written, err := br.l.Publish(o.Pub)
		o.Ret = nowNS()
		o.Next = nx
		if err != nil {
			o.Err = errClass(err)
			o.ErrText = errText(err)
		} else {
			o.Pub = written
			o.OutOffs = ref.OffsetsOf(written)
		}
		o.Done = true
	})
}

// startPoisonPublisher publishes a big batch whose last value the typed codec cannot encode.
func (br *bRun) startPoisonPublisher(a *bActor, n int) {
	msgs := br.pubMsgs(n)
	msgs[len(msgs)-1].Value = poison
	a.expectFail = true
	a.op = &cOp{Client: a.id, Kind: "publish", N: n, Pub: msgs}
	br.start(a, func() {
		o := a.op
		o.Call = nowNS()
		nx, written, err := br.l.Publish(o.Pub)
		o.Ret = nowNS()
		o.Next = nx
		if err != nil {
			o.Err = errClass(err)
			o.ErrText = errText(err)
		} else {
			o.Pub = written
			o.OutOffs = ref.OffsetsOf(written)
		}
		o.Done = true
	})
}

// startNoise issues, through the wrapper itself, a call that is none of Publish, Close or a context
// end: no waiter may be woken by it.
func (br *bRun) startNoise(a *bActor, kind string) {
	a.op = &cOp{Client: a.id, Kind: kind}
	if kind == "delete" {
		a.op.Offsets = []int64{0}
	}
	br.start(a, func() {
		execOp(br.l.AsLog(), a.op)
		a.op.Done = true
	})
}

func (br *bRun) startCloser(a *bActor) {
	a.op = &cOp{Client: a.id, Kind: "close"}
	br.start(a, func() {
		o := a.op
		o.Call = nowNS()
		err := br.l.Close()
		o.Ret = nowNS()
		if err != nil {
			o.Err = errClass(err)
			o.ErrText = errText(err)
		}
		o.Done = true
	})
}

// settle waits until the actor finished or is parked (wait state); returns "done", "parked:<state>", "running".
func settle(a *bActor, spins int) string {
	for spin := 0; spin < spins; spin++ {
		select {
		case <-a.done:
			return "done"
		default:
		}
		if spin%10 == 9 {
			if ws, ok := waitStates()[a.gid]; ok && isBlockedState(ws[0]) {
				return "parked:" + ws[0] + ":" + ws[1]
			}
		}
		time.Sleep(50 * time.Microsecond)
	}
	return "running"
}

func parkedInWait(state string) bool {
	return strings.HasPrefix(state, "parked:select") && strings.Contains(state, "notify.(*Offset).Wait")
}

// ---------------------------------------------------------------------------------------
// judging a finished run

func (br *bRun) judge(replay map[string]any, finalNext int64, closeOp *cOp) bool {
	report := func(sig, what string) bool {
		var hist []string
		for _, a := range br.actors {
			if a.op != nil {
				hist = append(hist, fmt.Sprintf("%s[%s] %s parked=%v err=%q", a.kind, a.offCls, a.op.String(), a.hc.points["notify.wait.beforePark"] > 0, a.op.ErrText))
			}
		}
		replay["actors"] = hist
		br.rep.Report(Violation{Property: "C18", Sig: "concmon|" + sig, What: what, Replay: replay})
		return false
	}
	var pubs []*cOp
	for _, a := range br.actors {
		if a.kind == "publisher" && br.isDone(a.op) {
			pubs = append(pubs, a.op)
		}
	}
	lowerNext := func(t int64, init int64) int64 {
		lo := init
		for _, p := range pubs {
			if p.Err == "" && p.Ret < t && p.Next > lo {
				lo = p.Next
			}
		}
		return lo
	}
	for _, a := range br.actors {
		if a.kind != "waiter" {
			continue
		}
		o := a.op
		if !br.isDone(o) {
			continue // handled by the quiescence oracle
		}
		br.cov.Add("evaluations", 1)
		parked := a.hc.points["notify.wait.beforePark"] > 0
		// 1. immediate return: relative offsets and offsets below NextOffset at invocation never park
		if !br.perturb || true {
			if o.Off < 0 || o.Off < lowerNext(o.Call, a.atNext) {
				if parked && !br.perturb {
					return report("immediate:parked:"+a.offCls, fmt.Sprintf("%s was invoked with an offset below NextOffset (or relative) but reached the park point", o))
				}
				if parked && br.perturb && o.Off < a.atNext {
					return report("immediate:parked:"+a.offCls, fmt.Sprintf("%s was invoked with an offset below NextOffset but reached the park point", o))
				}
			}
		}
		// 2. no spurious wake: a parked waiter returns only if a Publish/Close/cancel was invoked before it returned
		if parked {
			woken := false
			for _, b := range br.actors {
				if b.op == nil || b == a {
					continue
				}
				if (b.kind == "publisher" || b.kind == "closer") && b.op.Call != 0 && b.op.Call < o.Ret {
					if !br.isDone(b.op) || b.op.Ret > o.Call {
						woken = true
					}
				}
			}
			if a.cancelled.Load() && a.cancelCall.Load() < o.Ret {
				woken = true
			}
			if !woken {
				return report("spurious-wake:"+a.offCls, fmt.Sprintf("%s had parked and returned although no Publish, Close or cancel had been invoked since its invocation", o))
			}
			br.cov.Add("c18.wakes_explained", 1)
		}
		// 2b. a call at or beyond NextOffset does not return at all (it parks) unless something woke it
		if !parked && o.Off >= 0 && o.Err == "" && !a.cancelled.Load() {
			invoked := false
			for _, b := range br.actors {
				if b.op == nil || b == a {
					continue
				}
				if (b.kind == "publisher" || b.kind == "closer") && b.op.Call != 0 && b.op.Call < o.Ret {
					invoked = true
				}
			}
			if !invoked && o.Off >= a.atNext && !br.perturb {
				return report("returned-without-wake:"+a.offCls, fmt.Sprintf("%s was invoked at or beyond NextOffset (%d) and returned without parking although no Publish, Close or cancel had been invoked", o, a.atNext))
			}
		}
		// 5. errors
		switch {
		case o.Err == "":
		case o.Err == "ctx-canceled":
			if !a.cancelled.Load() {
				return report("error:ctx-error-without-cancel", fmt.Sprintf("%s returned a context error but its context was never cancelled", o))
			}
		case o.Err == "ErrInvalidOffset":
			// Consume's answer for an offset beyond NextOffset after a wake that did not pass it: judged by the linearizability check
		case strings.Contains(o.ErrText, "offset notify already closed"):
			// a wait at or beyond NextOffset that starts after Close fails: legal only if Close was invoked before this call returned
			if closeOp == nil || closeOp.Call == 0 || closeOp.Call > o.Ret {
				return report("error:closed-without-close", fmt.Sprintf("%s failed with 'notify closed' but Close had not been invoked", o))
			}
		default:
			if closeOp != nil && closeOp.Call != 0 && closeOp.Call < o.Ret {
				// reading from a log that is being closed: outside the property
				break
			}
			return report("error:"+o.Err, fmt.Sprintf("%s failed: %s", o, o.ErrText))
		}
		// a cancelled context yields its error unless a wake raced with it
		// (only decidable when the offset stayed at or beyond NextOffset for the whole call - it is
		// not below the final NextOffset - and no Publish or Close overlapped the call: a relative or
		// passed offset returns at once whatever the context says, and a wake may win the race)
		overlapped := false
		for _, b := range br.actors {
			if b.op == nil || b == a || (b.kind != "publisher" && b.kind != "closer") {
				continue
			}
			if !br.isDone(b.op) || (b.op.Call < o.Ret && b.op.Ret > o.Call) {
				overlapped = true
			}
		}
		if a.cancelled.Load() && o.Err == "" && a.cancelCall.Load() < o.Call && o.Off >= 0 && o.Off >= finalNext && !overlapped {
			return report("cancel:ignored", fmt.Sprintf("%s was invoked with an already cancelled context at/after NextOffset and returned without error", o))
		}
	}
	// 4. successful returns are Consume/ConsumeByKey results at some instant inside the call
	h := &concHist{id: br.id, cfg: ref.IndexCfg{Keys: true}}
	h.ops = append(h.ops, br.preset...)
	for _, a := range br.actors {
		if a.op == nil || !br.isDone(a.op) {
			continue
		}
		switch a.kind {
		case "publisher":
			if a.op.Err == "" {
				h.ops = append(h.ops, a.op)
			} else if a.expectFail {
				br.cov.Add("c18.poison_publish_failed", 1)
			} else if closeOp == nil || closeOp.Call == 0 || a.op.Ret < closeOp.Call {
				return report("error:Publish:"+a.op.Err, "Publish failed: "+a.op.ErrText)
			}
		case "noise":
			if a.op.Kind == "delete" && a.op.Err == "" {
				h.ops = append(h.ops, a.op)
			}
		case "waiter":
			if a.op.Err == "" || a.op.Err == "ErrInvalidOffset" {
				if closeOp != nil && closeOp.Call != 0 && closeOp.Call < a.op.Ret {
					continue // results obtained while/after closing are outside the model
				}
				h.ops = append(h.ops, a.op)
			}
		}
	}
	if f := h.streamMonitors(); f != nil {
		return report(f.Sig, f.What)
	}
	res, why := h.linearizable(10 * time.Second)
	br.cov.Add("porcupine."+res, 1)
	if res == "illegal" {
		return report("result-not-a-consume-result", "a blocking consume returned something Consume could not have returned at any instant inside the call: "+why)
	}
	if res == "unknown" {
		br.rep.Inconclusive("porcupine timeout")
	}
	return true
}

// quiesce: after all publishers/closers returned, every waiter must have returned or be legitimately
// parked. Returns false on violation. Legitimately parked waiters are then cancelled and must return
// their context's error.
func (br *bRun) quiesce(replay map[string]any, finalNext int64, closeReturned bool) bool {
	for _, a := range br.actors {
		if a.kind != "waiter" {
			continue
		}
		st := settle(a, 20000)
		br.cov.Add("c18.quiescence_checks", 1)
		br.cov.Add("evaluations", 1)
		switch {
		case st == "done":
		case parkedInWait(st):
			if a.op.Off < finalNext || closeReturned {
				why := fmt.Sprintf("its offset %d is below NextOffset %d", a.op.Off, finalNext)
				if closeReturned {
					why = "Close has returned"
				}
				replay["goroutine"] = st
				br.rep.Report(Violation{Property: "C18", Sig: "concmon|lost-wake:" + a.offCls, What: fmt.Sprintf("after every publisher returned, waiter %s is still parked in notify.Wait although %s: the wake-up was lost", a.op, why), Replay: replay})
				// unblock it so the goroutine does not leak
				a.cancelCall.Store(nowNS())
				a.cancelled.Store(true)
				a.cancel()
				settle(a, 20000)
				return false
			}
			br.cov.Add("c18.stayed_blocked", 1)
			a.cancelCall.Store(nowNS())
			a.cancelled.Store(true)
			a.cancel()
			if settle(a, 20000) != "done" {
				br.rep.Inconclusive("cancelled waiter did not return")
				return true
			}
			if a.op.Err != "ctx-canceled" {
				br.rep.Report(Violation{Property: "C18", Sig: "concmon|cancel:wrong-result", What: fmt.Sprintf("a parked waiter whose context was cancelled returned %s %q instead of the context's error", a.op, a.op.ErrText), Replay: replay})
				return false
			}
			br.cov.Add("c18.cancel_returns_ctx_error", 1)
		default:
			br.rep.Inconclusive("waiter neither returned nor parked: " + clipStr(st, 80))
		}
	}
	return true
}

// ---------------------------------------------------------------------------------------
// controlled scenarios

type bScenario struct {
	held     string // waiter publisher closer
	window   string
	offCls   string // held waiter's offset class; for publisher/closer: class of the pre-parked waiter
	byKey    bool
	secs     []string
	typed    bool
	prePark2 bool // a second pre-parked waiter beyond
	tailDel  bool // preset: the newest message is deleted again, so NextOffset-1 lies in a deleted tail
	reopen   bool // the wrapper is closed and reopened after the presets
}

func (s bScenario) String() string {
	return fmt.Sprintf("hold %s[%s bykey=%v]@%s + %v typed=%v second-waiter=%v tail-deleted=%v reopened=%v", s.held, s.offCls, s.byKey, s.window, s.secs, s.typed, s.prePark2, s.tailDel, s.reopen)
}

var bSecondaries = []string{"publish-pass", "publish-empty", "publish-2", "waiter-at", "waiter-beyond", "waiter-below", "cancel", "close", "noise", "publish-poison"}

var bNoiseKinds = []string{"sync", "gc", "stat", "delete", "next"}

func enumerateBScenarios(tier string, seed int64, scale float64) []bScenario {
	var out []bScenario
	r := NewRand(seed, 1818)
	type hw struct{ held, window string }
	var hws []hw
	for _, w := range []string{"notify.wait.afterFast", "notify.wait.holdingToken", "notify.wait.beforePark", "blocking.consume.afterWait", "inner.nextOffset"} {
		hws = append(hws, hw{"waiter", w})
	}
	for _, w := range []string{"blocking.publish.beforeNotify", "notify.set.holdingToken", "notify.set.afterStore", "notify.set.afterBroadcast"} {
		hws = append(hws, hw{"publisher", w})
	}
	hws = append(hws, hw{"closer", "notify.close.afterBroadcast"})
	k := 0
	for _, x := range hws {
		classes := []string{"at", "beyond"}
		for _, oc := range classes {
			add := func(secs []string) {
				k++
				out = append(out, bScenario{held: x.held, window: x.window, offCls: oc, byKey: k%3 == 0, secs: secs, typed: k%2 == 0, prePark2: k%4 < 2, tailDel: k%5 == 0, reopen: k%7 == 3})
			}
			add(nil)
			for _, s := range bSecondaries {
				add([]string{s})
			}
			frac := 0.5
			if tier == "thorough" {
				frac = 1
			}
			frac *= scale
			for _, a := range bSecondaries {
				for _, b := range bSecondaries {
					if a == "close" {
						continue // nothing is specified after Close except new waits, covered by [close, waiter-*]
					}
					if r.Chance(frac) {
						add([]string{a, b})
					}
				}
			}
			for _, b := range []string{"waiter-at", "waiter-beyond", "waiter-below"} {
				add([]string{"close", b})
			}
		}
	}
	return out
}

func runBScenario(cfg *RunCfg, rep *Reporter, cov *Cov, idx int, sc bScenario) {
	br := &bRun{cfg: cfg, rep: rep, cov: cov, typed: sc.typed, id: fmt.Sprintf("b%d", idx)}
	br.dir = filepath.Join(cfg.Scratch, br.id)
	defer os.RemoveAll(br.dir)
	l, err := openBlock(br.dir, sc.typed, idx%4 == 3)
	if err != nil {
		rep.Inconclusive("open blocking failed")
		return
	}
	br.l = l
	br.hm = &hookMode{dyn: map[int64]*hookClient{}}
	installHook(br.hm)
	defer installHook(nil)
	replay := map[string]any{"phase": "controlled", "scenario": sc.String(), "index": idx, "seed": cfg.Seed}
	// preset: two messages, NextOffset = 2
	nx, err := br.presetPublish(2)
	if err != nil || nx != 2 {
		rep.Inconclusive("preset publish failed")
		c18Close(l, rep)
		return
	}
	next := nx
	if sc.tailDel {
		// publish one more and delete it again: NextOffset stays, the tail is a hole
		if nx2, err := br.presetPublish(1); err == nil {
			o := &cOp{Client: 99, Kind: "delete", Offsets: []int64{nx2 - 1}}
			if idx%2 == 1 {
				// the first and the newest message of the head in one call, a survivor in between
				o.Offsets = []int64{0, nx2 - 1}
			}
			execOp(l.AsLog(), o)
			br.preset = append(br.preset, o)
			next = nx2
		}
	}
	if sc.window == "inner.nextOffset" {
		sc.reopen = true // the held waiter is the first blocking call of a fresh wrapper over the shim
	}
	if sc.reopen {
		// the wrapper is closed and opened again over the log that now has content: its notifier
		// must start at the log's NextOffset
		if err := c18Close(l, rep); err != nil {
			rep.Inconclusive("close before reopen failed")
			return
		}
		l, err = openBlock(br.dir, sc.typed, idx%2 == 0 || sc.window == "inner.nextOffset")
		if err != nil {
			rep.Inconclusive("reopen blocking failed")
			return
		}
		br.l = l
		cov.Add("c18.reopened_over_existing_log", 1)
	}
	offOf := func(cls string) int64 {
		switch cls {
		case "below":
			return next - 1
		case "beyond":
			return next + 1
		case "relative":
			return klevdb.OffsetOldest
		}
		return next
	}
	var closeOp *cOp
	mkWaiter := func(cls string, byKey bool) *bActor {
		a := br.newActor("waiter")
		a.offCls = cls
		a.atNext = next
		var key []byte
		if byKey {
			key = []byte("a")
		}
		br.startWaiter(a, offOf(cls), 4, key)
		return a
	}
	// pre-parked waiters when the held actor is a publisher or closer
	if sc.held != "waiter" {
		w := mkWaiter(sc.offCls, sc.byKey)
		if st := settle(w, 20000); !parkedInWait(st) {
			rep.Inconclusive("pre-parked waiter did not park: " + clipStr(st, 60))
		}
		if sc.prePark2 {
			w2 := mkWaiter("beyond", false)
			settle(w2, 20000)
		}
	}
	// the held actor
	var held *bActor
	switch sc.held {
	case "waiter":
		held = br.newActor("waiter")
		held.offCls = sc.offCls
		held.atNext = next
		held.hc.armPoint, held.hc.armNth = sc.window, 1
		var key []byte
		if sc.byKey {
			key = []byte("a")
		}
		br.startWaiter(held, offOf(sc.offCls), 4, key)
	case "publisher":
		held = br.newActor("publisher")
		held.hc.armPoint, held.hc.armNth = sc.window, 1
		br.startPublisher(held, 1)
	case "closer":
		held = br.newActor("closer")
		held.hc.armPoint, held.hc.armNth = sc.window, 1
		br.startCloser(held)
		closeOp = held.op
	}
	arrived := false
	// wait until the held actor arrived at its window, finished, or parked (a waiter held at
	// blocking.consume.afterWait only gets there after something woke it)
	waitHeld := func(spins int) {
		for spin := 0; spin < spins && !arrived; spin++ {
			select {
			case <-held.hc.arrived:
				arrived = true
				return
			case <-held.done:
				return
			default:
			}
			if spin%10 == 9 {
				if ws, ok := waitStates()[held.gid]; ok && isBlockedState(ws[0]) && !strings.Contains(ws[1], "vhook") {
					// parked somewhere else than in the hook handler
					if strings.Contains(ws[1], "notify.(*Offset).Wait") || strings.Contains(ws[1], "notify.(*Offset).Set") || strings.Contains(ws[1], "notify.(*Offset).Close") {
						return
					}
				}
			}
			time.Sleep(50 * time.Microsecond)
		}
	}
	waitHeld(40000)
	winKey := sc.held + "@" + sc.window
	// secondaries
	inside := 0
	for _, s := range sc.secs {
		var a *bActor
		switch s {
		case "publish-pass":
			a = br.newActor("publisher")
			br.startPublisher(a, 1)
		case "publish-2":
			a = br.newActor("publisher")
			br.startPublisher(a, 2)
		case "publish-empty":
			a = br.newActor("publisher")
			br.startPublisher(a, 0)
		case "publish-poison":
			a = br.newActor("publisher")
			if sc.typed {
				br.startPoisonPublisher(a, 300)
			} else {
				br.startPublisher(a, 1) // only a codec can make Publish fail half-way
			}
		case "noise":
			a = br.newActor("noise")
			kind := bNoiseKinds[(idx+len(br.actors))%len(bNoiseKinds)]
			br.startNoise(a, kind)
			cov.Add("c18.noise."+kind, 1)
		case "waiter-at":
			a = mkWaiter("at", false)
		case "waiter-beyond":
			a = mkWaiter("beyond", idx%2 == 0)
		case "waiter-below":
			a = mkWaiter("below", false)
		case "cancel":
			// cancel the first waiter that has not returned
			for _, w := range br.actors {
				if w.kind == "waiter" && !w.cancelled.Load() {
					select {
					case <-w.done:
						continue
					default:
					}
					w.cancelCall.Store(nowNS())
					w.cancelled.Store(true)
					w.cancel()
					break
				}
			}
			continue
		case "close":
			if closeOp != nil {
				continue
			}
			a = br.newActor("closer")
			br.startCloser(a)
			closeOp = a.op
		}
		st := settle(a, 4000)
		if st == "done" && arrived {
			inside++
		}
	}
	waitHeld(2000) // a late arrival (woken by a secondary)
	if arrived {
		cov.Add("windows_reached."+sc.window, 1)
		cov.Distinct("windows", winKey)
	} else {
		cov.Add("windows_unreached", 1)
		cov.Distinct("windows_unreached_set", winKey+"["+sc.offCls+"]")
	}
	close(held.hc.release) // an arrival after this point passes straight through
	// join publishers and closers
	for _, a := range br.actors {
		if a.kind == "waiter" {
			continue
		}
		if st := settle(a, 40000); st != "done" {
			replay["goroutine"] = st
			rep.Report(Violation{Property: "C18", Sig: "concmon|stuck:" + a.kind, What: fmt.Sprintf("%s never returned: %s", a.kind, st), Replay: replay})
			return
		}
	}
	finalNext := next
	for _, a := range br.actors {
		if a.kind == "publisher" && a.op.Err == "" && a.op.Next > finalNext {
			finalNext = a.op.Next
		}
	}
	closeReturned := closeOp != nil && br.isDone(closeOp)
	if closeOp == nil {
		// ground truth: a Publish that failed may still have appended
		if nx, err := kNext(l.Raw()); err == nil && nx > finalNext {
			finalNext = nx
		}
	}
	ok := br.quiesce(replay, finalNext, closeReturned)
	// epilogue: with everything quiet, a new call below NextOffset must return at once (a notifier
	// left behind NextOffset by the calls above would park it)
	if ok && closeOp == nil && finalNext > 0 {
		ea := br.newActor("waiter")
		ea.offCls = "epilogue-below"
		ea.atNext = finalNext
		br.startWaiter(ea, finalNext-1, 4, nil)
		st := settle(ea, 20000)
		cov.Add("evaluations", 1)
		if parkedInWait(st) {
			replay["goroutine"] = st
			rep.Report(Violation{Property: "C18", Sig: "concmon|immediate:parked:after-quiescence", What: fmt.Sprintf("with NextOffset=%d and no call in progress, ConsumeBlocking(%d) parked instead of returning immediately", finalNext, finalNext-1), Replay: replay})
			ea.cancelCall.Store(nowNS())
			ea.cancelled.Store(true)
			ea.cancel()
			settle(ea, 20000)
			ok = false
		}
	}
	installHook(nil)
	if ok {
		ok = br.judge(replay, finalNext, closeOp)
	}
	if !closeReturned {
		c18Close(l, rep)
	}
	cov.Add("ctrl.scenarios", 1)
	if arrived {
		cov.Distinct("c18", fmt.Sprintf("%s|%s|%v|%s|typed=%v|bykey=%v", sc.held, sc.window, sc.secs, sc.offCls, sc.typed, sc.byKey))
	}
	if idx%97 == 0 {
		var hs []string
		for _, a := range br.actors {
			if a.op != nil {
				hs = append(hs, fmt.Sprintf("%s[%s] %s parked=%v", a.kind, a.offCls, a.op.String(), a.hc.points["notify.wait.beforePark"] > 0))
			}
		}
		cov.Sample("c18-"+sc.window, map[string]any{"phase": "controlled", "scenario": sc.String(), "window_reached": arrived, "secondaries_completed_inside": inside, "actors": hs})
	}
}

// ---------------------------------------------------------------------------------------
// read-only handles: nothing can be published through them, but the rules are the same - below
// NextOffset returns at once, at or beyond it parks until the context ends, and after Close a wait at
// NextOffset fails.

func openBlockRO(dir string, typed bool) (blockLog, error) {
	opts := klevdb.Options{KeyIndex: true, Rollover: 300, Readonly: true}
	if typed {
		l, err := klevdb.OpenTBlocking[[]byte, []byte](dir, opts, poisonCodec{}, poisonCodec{})
		if err != nil {
			return nil, err
		}
		return typedBlock{l}, nil
	}
	l, err := klevdb.OpenBlocking(dir, opts)
	if err != nil {
		return nil, err
	}
	return rawBlock{l}, nil
}

func runBReadonly(cfg *RunCfg, rep *Reporter, cov *Cov, idx int) {
	typed := idx%2 == 1
	br := &bRun{cfg: cfg, rep: rep, cov: cov, typed: typed, id: fmt.Sprintf("bro%d", idx)}
	br.dir = filepath.Join(cfg.Scratch, br.id)
	defer os.RemoveAll(br.dir)
	replay := map[string]any{"phase": "readonly-handle", "index": idx, "typed": typed, "seed": cfg.Seed}
	report := func(sig, what string) {
		rep.Report(Violation{Property: "C18", Sig: "concmon|readonly:" + sig, What: what, Replay: replay})
	}
	n := 0
	if idx%4 < 2 {
		n = 2 + idx%3
	}
	if n > 0 {
		w, err := openBlock(br.dir, typed, false)
		if err != nil {
			rep.Inconclusive("readonly scenario: writer open failed")
			return
		}
		br.l = w
		if _, err := br.presetPublish(n); err != nil {
			c18Close(w, rep)
			return
		}
		c18Close(w, rep)
	} else {
		os.MkdirAll(br.dir, 0o700) // an empty directory: the handle is served by a synthetic segment
	}
	l, err := openBlockRO(br.dir, typed)
	if err != nil {
		report("open-error:"+errClass(err), "read-only blocking open failed: "+errText(err))
		return
	}
	br.l = l
	br.hm = &hookMode{dyn: map[int64]*hookClient{}}
	installHook(br.hm)
	defer installHook(nil)
	next := int64(n)
	cov.Add("evaluations", 1)
	cov.Distinct("c18", fmt.Sprintf("readonly|typed=%v|messages=%d", typed, n))
	mk := func(cls string, off int64) *bActor {
		a := br.newActor("waiter")
		a.offCls, a.atNext = cls, next
		br.startWaiter(a, off, 4, nil)
		return a
	}
	if n > 0 {
		below := mk("below", next-1)
		if st := settle(below, 20000); st != "done" || below.op.Err != "" || len(below.op.Out) != 1 {
			report("below-not-immediate", fmt.Sprintf("ConsumeBlocking(%d) on a read-only handle with NextOffset %d did not return the message at once: %s %s", next-1, next, st, below.op))
			below.cancel()
			settle(below, 20000)
			c18Close(l, rep)
			return
		}
	}
	for _, w := range []struct {
		cls string
		off int64
	}{{"at", next}, {"beyond", next + 2}} {
		a := mk(w.cls, w.off)
		st := settle(a, 20000)
		if !parkedInWait(st) {
			report("not-parked:"+w.cls, fmt.Sprintf("ConsumeBlocking(%d) on a read-only handle with NextOffset %d returned (%s %s) although no Publish, Close or cancel happened", w.off, next, st, a.op))
			a.cancel()
			settle(a, 20000)
			c18Close(l, rep)
			return
		}
		a.cancelCall.Store(nowNS())
		a.cancelled.Store(true)
		a.cancel()
		if st := settle(a, 20000); st != "done" || a.op.Err != "ctx-canceled" {
			report("cancel:wrong-result", fmt.Sprintf("a parked waiter on a read-only handle whose context was cancelled returned %s %q (%s)", a.op, a.op.ErrText, st))
			c18Close(l, rep)
			return
		}
		cov.Add("c18.readonly_parked_then_cancelled", 1)
	}
	if err := c18Close(l, rep); err != nil {
		report("close-error", "Close of a read-only blocking handle failed: "+errText(err))
		return
	}
	late := mk("at-after-close", next)
	if st := settle(late, 20000); st != "done" || late.op.Err == "" {
		report("after-close", fmt.Sprintf("a wait at NextOffset that starts after Close of a read-only handle did not fail: %s %s", st, late.op))
		late.cancel()
		settle(late, 20000)
	}
}

// ---------------------------------------------------------------------------------------
// perturb phase

func runBPerturb(cfg *RunCfg, rep *Reporter, cov *Cov, idx int) {
	r := NewRand(cfg.Seed, 1819, int64(idx))
	br := &bRun{cfg: cfg, rep: rep, cov: cov, typed: idx%2 == 1, id: fmt.Sprintf("bp%d", idx), perturb: true}
	br.dir = filepath.Join(cfg.Scratch, br.id)
	defer os.RemoveAll(br.dir)
	l, err := openBlock(br.dir, br.typed, idx%4 >= 2)
	if err != nil {
		return
	}
	br.l = l
	next, _ := br.presetPublish(1 + r.Intn(3))
	if idx%5 == 4 {
		// closed and reopened over the existing log (alternating constructor)
		if c18Close(l, rep) != nil {
			return
		}
		if l, err = openBlock(br.dir, br.typed, idx%2 == 0); err != nil {
			return
		}
		br.l = l
		cov.Add("c18.reopened_over_existing_log", 1)
	}
	nW, nP := 1+r.Intn(8), 1+r.Intn(4)
	withClose := r.Chance(0.3)
	hm := &hookMode{perturb: true, clients: map[int64]*hookClient{}}
	replay := map[string]any{"phase": "perturb", "index": idx, "seed": cfg.Seed, "waiters": nW, "publishers": nP, "close": withClose, "typed": br.typed}
	// all actors are created blocked on a start channel so that the goroutine->client map is complete
	start := make(chan struct{})
	type plan struct {
		a   *bActor
		run func()
	}
	var plans []plan
	var closeOp *cOp
	for i := 0; i < nW; i++ {
		a := br.newActor("waiter")
		a.hc.rng = NewRand(cfg.Seed, 1820, int64(idx), int64(i))
		a.atNext = next
		cls := pick(r, []string{"at", "at", "beyond", "beyond2", "below", "relative"})
		a.offCls = cls
		off := next
		switch cls {
		case "beyond":
			off = next + 1
		case "beyond2":
			off = next + int64(2+r.Intn(3))
		case "below":
			off = next - 1
		case "relative":
			off = klevdb.OffsetNewest - int64(r.Intn(2))
		}
		var key []byte
		if r.Chance(0.3) {
			key = []byte("a")
		}
		a.ctx, a.cancel = waiterContext(a.id)
		a.op = &cOp{Client: a.id, Kind: "consume", Off: off, Max: int64(1 + r.Intn(4)), Key: key}
		if key != nil {
			a.op.Kind = "consumebykey"
			a.byKey = true
		}
		delay := time.Duration(r.Intn(300)) * time.Microsecond
		cancelAfter := time.Duration(0)
		if r.Chance(0.2) {
			cancelAfter = time.Duration(50+r.Intn(2000)) * time.Microsecond
		}
		plans = append(plans, plan{a, func() {
			time.Sleep(delay)
			o := a.op
			if cancelAfter > 0 {
				go func() {
					time.Sleep(cancelAfter)
					a.cancelCall.Store(nowNS())
					a.cancelled.Store(true)
					a.cancel()
				}()
			}
			var err error
			o.Call = nowNS()
			if a.byKey {
				o.Next, o.Out, err = l.ConsumeByKeyBlocking(a.ctx, key, o.Off, o.Max)
			} else {
				o.Next, o.Out, err = l.ConsumeBlocking(a.ctx, o.Off, o.Max)
			}
			o.Ret = nowNS()
			o.OutOffs = ref.OffsetsOf(o.Out)
			a.rawErr = err
			if err != nil {
				o.Err, o.ErrText = errClass(err), errText(err)
				o.Out, o.OutOffs = nil, nil
			}
			o.Done = true
		}})
	}
	// publishers: each a short sequence of publishes, recorded as separate actors would be heavy: one actor per publish
	for i := 0; i < nP; i++ {
		np := 1 + r.Intn(3)
		var chain []*bActor
		for j := 0; j < np; j++ {
			a := br.newActor("publisher")
			n := 1 + r.Intn(2)
			if r.Chance(0.2) {
				n = 0
			}
			a.op = &cOp{Client: a.id, Kind: "publish", N: n, Pub: br.pubMsgs(n)}
			chain = append(chain, a)
		}
		hc := &hookClient{id: 100 + i, rng: NewRand(cfg.Seed, 1821, int64(idx), int64(i)), points: map[string]int{}, hits: map[string]int{}}
		for _, a := range chain {
			a.hc = hc
		}
		delay := time.Duration(r.Intn(500)) * time.Microsecond
		first := chain[0]
		plans = append(plans, plan{first, func() {
			time.Sleep(delay)
			for _, a := range chain {
				o := a.op
				o.Call = nowNS()
				nx, written, err := l.Publish(o.Pub)
				o.Ret = nowNS()
				o.Next = nx
				if err != nil {
					o.Err, o.ErrText = errClass(err), errText(err)
				} else {
					o.Pub = written
					o.OutOffs = ref.OffsetsOf(written)
				}
				o.Done = true
				if a != first {
					close(a.done)
				}
			}
		}})
	}
	if withClose {
		a := br.newActor("closer")
		a.hc.rng = NewRand(cfg.Seed, 1822, int64(idx))
		a.op = &cOp{Client: a.id, Kind: "close"}
		closeOp = a.op
		delay := time.Duration(200+r.Intn(1500)) * time.Microsecond
		plans = append(plans, plan{a, func() {
			time.Sleep(delay)
			o := a.op
			o.Call = nowNS()
			err := c18Close(l, rep)
			o.Ret = nowNS()
			if err != nil {
				o.Err, o.ErrText = errClass(err), errText(err)
			}
			o.Done = true
		}})
	}
	ready := make(chan struct{}, len(plans))
	for _, p := range plans {
		p := p
		go func() {
			p.a.gid = goid()
			ready <- struct{}{}
			<-start
			p.run()
			close(p.a.done)
		}()
	}
	for range plans {
		<-ready
	}
	for _, p := range plans {
		hm.clients[p.a.gid] = p.a.hc
	}
	installHook(hm)
	close(start)
	// join publishers and closer
	for _, a := range br.actors {
		if a.kind == "waiter" {
			continue
		}
		select {
		case <-a.done:
		case <-time.After(30 * time.Second):
			rep.Inconclusive("perturb publisher/closer did not finish")
			installHook(nil)
			return
		}
	}
	finalNext := next
	for _, a := range br.actors {
		if a.kind == "publisher" && br.isDone(a.op) && a.op.Err == "" && a.op.Next > finalNext {
			finalNext = a.op.Next
		}
	}
	closeReturned := closeOp != nil && br.isDone(closeOp)
	ok := br.quiesce(replay, finalNext, closeReturned)
	installHook(nil)
	if ok {
		br.judge(replay, finalNext, closeOp)
	}
	if !closeReturned {
		c18Close(l, rep)
	}
	cov.Add("perturb.histories", 1)
	outc := map[string]int{}
	for _, a := range br.actors {
		if a.kind == "waiter" && br.isDone(a.op) {
			parked := a.hc.points["notify.wait.beforePark"] > 0
			cls := fmt.Sprintf("%s|parked=%v|err=%s|n=%d", a.offCls, parked, a.op.Err, minInt(len(a.op.Out), 2))
			outc[cls]++
			cov.Distinct("c18", "perturb-outcome:"+cls)
		}
		for p, n := range a.hc.points {
			cov.Add("points."+p, int64(n))
		}
	}
	if idx%60 == 0 {
		cov.Sample("c18-perturb", map[string]any{"phase": "perturb", "history": idx, "waiters": nW, "publishers": nP, "close": withClose, "typed": br.typed, "waiter_outcomes": outc})
	}
}

// ---------------------------------------------------------------------------------------
// engine

func runC18(cfg *RunCfg, rep *Reporter, cov *Cov, ev *Evidence) {
	if cfg.Shards == 0 {
		runSharded(cfg, rep, cov, 8)
		ev.Coverage["race_detector_enabled"] = raceEnabled()
		ev.Coverage["race_reports_raw"] = cov.Get("race.raw")
		ev.Coverage["race_reports_without_klevdb_frame"] = cov.Get("race.harness")
		ev.Coverage["race_reports_distinct"] = int64(cov.SetSize("race.distinct"))
		ev.Coverage["shards"] = 8
		fillC18Evidence(cov, ev)
		return
	}
	scs := enumerateBScenarios(cfg.Tier, cfg.Seed, cfg.Scale)
	for i, sc := range scs {
		if mine(cfg, i) {
			runBScenario(cfg, rep, cov, i, sc)
		}
	}
	nro := 24
	if cfg.Tier == "thorough" {
		nro = 240
	}
	for i := 0; i < nro; i++ {
		if mine(cfg, i) {
			runBReadonly(cfg, rep, cov, i)
		}
	}
	nh := 1200
	if cfg.Tier == "thorough" {
		nh = 24000
	}
	nh = int(float64(nh) * cfg.Scale)
	for i := 0; i < nh; i++ {
		if mine(cfg, i) {
			runBPerturb(cfg, rep, cov, i)
		}
	}
	finishRace(cfg, rep, cov, ev, "C18")
}

func fillC18Evidence(cov *Cov, ev *Evidence) {
	ev.Coverage["evaluations"] = cov.Get("evaluations")
	ev.Coverage["distinct_nontrivial"] = int64(cov.SetSize("c18"))
	ev.Coverage["distinct_examples"] = cov.SetMembers("c18", 14)
	ev.Coverage["controlled_scenarios"] = cov.Get("ctrl.scenarios")
	ev.Coverage["windows_reached"] = cov.Counts("windows_reached.")
	ev.Coverage["held_actor_windows_never_reached"] = cov.SetMembers("windows_unreached_set", 0)
	ev.Coverage["perturb_histories"] = cov.Get("perturb.histories")
	ev.Coverage["quiescence_checks"] = cov.Get("c18.quiescence_checks")
	ev.Coverage["waiters_that_stayed_blocked_until_cancelled"] = cov.Get("c18.stayed_blocked")
	ev.Coverage["cancel_returned_ctx_error"] = cov.Get("c18.cancel_returns_ctx_error")
	ev.Coverage["parked_waiter_wakes_explained"] = cov.Get("c18.wakes_explained")
	ev.Coverage["hook_points_hit_in_perturb"] = cov.Counts("points.")
	ev.Coverage["porcupine"] = cov.Counts("porcupine.")
	ev.Coverage["samples"] = cov.Samples()
}

// c18Close: Close from a quiescent harness must return. "Stuck" is decided on goroutine states, not
// on time: the closing goroutine and every other goroutine inside the library are parked in 20
// consecutive snapshots (100 ms apart), so nothing is left that could let the call go on.
func c18Close(l interface{ Close() error }, rep *Reporter) error {
	done := make(chan error, 1)
	gch := make(chan int64, 1)
	go func() {
		gch <- goid()
		done <- guard(l.Close)
	}()
	gid := <-gch
	quiet := 0
	for polls := 1; ; polls++ {
		select {
		case err := <-done:
			return err
		default:
		}
		if polls%50 == 0 {
			ws := waitStates()
			st, ok := ws[gid]
			all := ok && isBlockedState(st[0])
			for id, w := range ws {
				if all && id != gid && w[1] != "" && !isBlockedState(w[0]) {
					all = false
				}
			}
			if all {
				quiet++
			} else {
				quiet = 0
			}
			if quiet >= 20 {
				rep.Report(Violation{Property: "C18", Sig: "concmon|close-stuck", What: fmt.Sprintf("Close of a blocking log never returns: it is parked (%s in %s) and so is every other goroutine inside the library (a publish or consume before it left the notifier unusable)", st[0], st[1]), Replay: map[string]any{"close_goroutine": st[0] + " in " + st[1]}})
				return errors.New("close stuck")
			}
			if polls > 150000 {
				rep.Inconclusive("Close did not return (watchdog, goroutines still running)")
				return errors.New("close watchdog")
			}
		}
		time.Sleep(2 * time.Millisecond)
	}
}

// isDone: "this call has returned", read through the actor's done channel (a plain read of op.Done
// from the judging goroutine is a data race of the harness with an actor that is just finishing).
func (br *bRun) isDone(op *cOp) bool {
	if op == nil {
		return false
	}
	for _, a := range br.actors {
		if a.op == op {
			select {
			case <-a.done:
				return true
			default:
				return false
			}
		}
	}
	return false
}
