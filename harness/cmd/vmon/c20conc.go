package main

import (
	"fmt"
	"os"
	"path/filepath"
	"strings"
	"sync"
	"time"

	"github.com/klev-dev/klevdb"
	"github.com/klev-dev/klevdb/pkg/vhook"

	"verifharness/ref"
)

// C20, concurrent part: "the same ... as the source at the time of the call". A Log.Backup that is
// held between two segment copies (or between the log copy and the index copy of one segment) while
// Deletes are issued must still produce a directory that equals the source at ONE instant of the call:
// with the deletes d1, d2 issued one after the other, one of S0, S0-d1, S0-d1-d2 - never a mix such
// as "d2 applied, d1 not". The real code achieves that by holding the reader-list lock for the whole
// copy, so the deletes simply wait; the oracle does not require the waiting, only the result.

type bkHold struct {
	point   string
	nth     int
	hits    int
	arrived chan struct{}
	release chan struct{}
}

var bkHolds sync.Map // goroutine id -> *bkHold

func c20Hook(point string) {
	if point != "backup.afterSegment" && point != "backup.betweenLogAndIndex" {
		return
	}
	v, ok := bkHolds.Load(goid())
	if !ok {
		return
	}
	h := v.(*bkHold)
	if point != h.point {
		return
	}
	h.hits++
	if h.hits == h.nth {
		close(h.arrived)
		<-h.release
	}
}

func isLockState(st string) bool {
	return st == "sync.Mutex.Lock" || st == "sync.RWMutex.Lock" || st == "sync.RWMutex.RLock"
}

func liveKey(ms []ref.Msg) string {
	var sb strings.Builder
	for _, m := range ms {
		fmt.Fprintf(&sb, "%d,", m.Offset)
	}
	return sb.String()
}

func runC20Concurrent(cfg *RunCfg, rep *Reporter, cov *Cov) {
	n := 60
	if cfg.Tier == "thorough" {
		n = 1500
	}
	n = maxInt(4, int(float64(n)*cfg.Scale))
	vhook.Set(c20Hook)
	defer vhook.Clear()
	reached := 0
	for i := 0; i < n; i++ {
		if c20ConcOne(cfg, rep, cov, i) {
			reached++
		}
	}
	cov.Add("c20conc.scenarios", int64(n))
	cov.Add("c20conc.backup_held_inside", int64(reached))
	if reached == 0 {
		rep.Inconclusive("no Backup call could be held between two copies (hooks not compiled in?)")
	}
}

// c20ConcOne returns true when the backup was held at its window.
func c20ConcOne(cfg *RunCfg, rep *Reporter, cov *Cov, idx int) bool {
	r := NewRand(cfg.Seed, 2020, int64(idx))
	dir := filepath.Join(cfg.Scratch, fmt.Sprintf("bc%d", idx))
	bdir := dir + "-bk"
	defer os.RemoveAll(dir)
	defer os.RemoveAll(bdir)
	icfg := pick(r, allCfgs)
	o := OpenOpts{KeyIndex: icfg.Keys, TimeIdx: icfg.Times, Rollover: 150, Create: true, NewVer: pick(r, []int{2, 2, 1})}
	l, err := kOpen(dir, o)
	if err != nil {
		rep.Inconclusive("c20conc open: " + errText(err))
		return false
	}
	stuck := false // a deadlocked handle cannot be closed either
	defer func() {
		if !stuck {
			kClose(l)
		}
	}()
	// 4-6 segments of 2-4 messages
	t := baseTime
	var live []ref.Msg
	nMsgs := 12 + r.Intn(8)
	for k := 0; k < nMsgs; k++ {
		m := []klevdb.Message{{Key: []byte(fmt.Sprintf("k%d", k%4)), Value: r.Bytes(30 + r.Intn(20)), Time: time.UnixMicro(t).UTC()}}
		t += int64(r.Intn(3))
		if _, err := kPublish(l, m); err != nil {
			rep.Inconclusive("c20conc publish: " + errText(err))
			return false
		}
		live = append(live, toRef(m[0]))
	}
	lay := layoutOf(dir)
	if lay.Segs < 3 {
		return false
	}
	point := "backup.afterSegment"
	if idx%3 == 2 {
		point = "backup.betweenLogAndIndex"
	}
	nth := 1 + r.Intn(lay.Segs-1) // held after the nth segment (afterSegment) or inside the nth (between)
	segOf := func(off int64) int {
		s := 0
		for i, b := range lay.Bases {
			if off >= b {
				s = i
			}
		}
		return s
	}
	// d1 in a segment that is already copied (or being copied), d2 in one that is not yet
	var early, late []ref.Msg
	for _, m := range live {
		s := segOf(m.Offset)
		switch {
		case point == "backup.afterSegment" && s < nth, point == "backup.betweenLogAndIndex" && s <= nth-1:
			early = append(early, m)
		default:
			late = append(late, m)
		}
	}
	if len(early) == 0 || len(late) == 0 {
		return false
	}
	d1, d2 := pick(r, early).Offset, pick(r, late).Offset
	if r.Chance(0.4) {
		d1 = lay.Bases[segOf(d1)] // the first message of its segment: the rewrite is renamed to a new base
	}
	if r.Chance(0.3) {
		d2 = lay.Bases[segOf(d2)]
	}
	order := []int64{d1, d2}
	if r.Chance(0.3) {
		order = []int64{d2, d1}
	}
	states := map[string]string{}
	cur := append([]ref.Msg(nil), live...)
	states[liveKey(cur)] = "before the deletes"
	for k, d := range order {
		var nx []ref.Msg
		for _, m := range cur {
			if m.Offset != d {
				nx = append(nx, m)
			}
		}
		cur = nx
		states[liveKey(cur)] = fmt.Sprintf("after delete %d of 2", k+1)
	}
	replay := map[string]any{"phase": "backup-vs-delete", "index": idx, "seed": cfg.Seed, "cfg": icfg.String(), "segment_bases": lay.Bases, "held_at": fmt.Sprintf("%s #%d", point, nth), "deletes_in_order": order, "live_before": ref.OffsetsOf(live)}
	// the backup (into an empty directory), held at its window
	os.MkdirAll(bdir, 0o700)
	hold := &bkHold{point: point, nth: nth, arrived: make(chan struct{}), release: make(chan struct{})}
	var bErr error
	bDone := make(chan struct{})
	bGch := make(chan int64, 1)
	go func() {
		g := goid()
		bGch <- g
		bkHolds.Store(g, hold)
		defer bkHolds.Delete(g)
		bErr = guard(func() error { return l.Backup(bdir) })
		close(bDone)
	}()
	held := false
	select {
	case <-hold.arrived:
		held = true
	case <-bDone:
	case <-time.After(20 * time.Second):
		rep.Inconclusive("c20conc: backup neither arrived nor returned")
		close(hold.release)
		<-bDone
		return false
	}
	// the deletes, one after the other, while the backup is held
	var dErrs []error
	var dGid int64
	gch := make(chan int64, 1)
	dDone := make(chan struct{})
	go func() {
		gch <- goid()
		for _, d := range order {
			_, _, e := kDelete(l, map[int64]struct{}{d: {}})
			dErrs = append(dErrs, e)
		}
		close(dDone)
	}()
	dGid = <-gch
	inside := "finished-inside"
	if held {
		// wait until the deletes are done or parked on a lock
	wait:
		for spin := 0; spin < 40000; spin++ {
			select {
			case <-dDone:
				break wait
			default:
			}
			if spin%20 == 19 {
				if ws, ok := waitStates()[dGid]; ok && isBlockedState(ws[0]) {
					inside = "blocked:" + ws[0]
					break wait
				}
			}
			time.Sleep(50 * time.Microsecond)
		}
		close(hold.release)
	}
	// Backup and the Deletes waiting for each other: decided on the goroutine states (both parked on a
	// lock of the library in 100 consecutive snapshots, nobody else is using this handle), not on time
	bGid := <-bGch
	both := 0
	for polls := 0; both < 100; polls++ {
		if polls > 60000 {
			stuck = true
			rep.Inconclusive("c20conc: Backup did not return after its pause point was released (watchdog, not a verdict)")
			return held
		}
		select {
		case <-bDone:
			both = -1
		default:
		}
		if both < 0 {
			break
		}
		ws := waitStates()
		b, bok := ws[bGid]
		d, dok := ws[dGid]
		if bok && dok && isLockState(b[0]) && isLockState(d[0]) {
			both++
		} else {
			both = 0
		}
		time.Sleep(2 * time.Millisecond)
	}
	if both >= 100 {
		stuck = true
		ws := waitStates()
		replay["backup_goroutine"] = ws[bGid][0] + " in " + ws[bGid][1]
		replay["delete_goroutine"] = ws[dGid][0] + " in " + ws[dGid][1]
		rep.Report(Violation{Property: "C20", Sig: "histmon|backup-vs-delete:deadlock", What: fmt.Sprintf("a Backup (held at %s #%d, then released) and a Delete issued during it wait for each other's locks: Backup never returns (backup: %s in %s; delete: %s in %s)", point, nth, ws[bGid][0], ws[bGid][1], ws[dGid][0], ws[dGid][1]), Replay: replay})
		return held
	}
	<-bDone
	select {
	case <-dDone:
	case <-time.After(30 * time.Second):
		rep.Report(Violation{Property: "C20", Sig: "histmon|backup-vs-delete:delete-stuck", What: "a Delete issued during a Backup never returned", Replay: replay})
		return held
	}
	cov.Add("evaluations", 1)
	cov.Distinct("c20", fmt.Sprintf("backup-vs-delete|%s|%s|first=%v", point, strings.SplitN(inside, ":", 2)[0], d1 == lay.Bases[segOf(d1)]))
	cov.Add("c20conc.deletes_"+strings.SplitN(inside, ":", 2)[0], 1)
	replay["deletes_while_held"] = inside
	if bErr != nil {
		rep.Report(Violation{Property: "C20", Sig: "histmon|backup-vs-delete:backup-error:" + errClass(bErr), What: fmt.Sprintf("Backup failed because Deletes ran during it (%s): %s", inside, errText(bErr)), Replay: replay})
		return held
	}
	for k, e := range dErrs {
		if e != nil {
			// not this property's clause (C08/C12 own Delete); the source is then not in a known state
			cov.Add("c20conc.delete_errors", 1)
			_ = k
			return held
		}
	}
	// the backup: passes Check, opens, equals one state of the source
	bo := OpenOpts{KeyIndex: icfg.Keys, TimeIdx: icfg.Times, Rollover: 150, NewVer: o.NewVer}
	if err := guard(func() error { return klevdb.Check(bdir, bo.K()) }); err != nil {
		rep.Report(Violation{Property: "C20", Sig: "histmon|backup-vs-delete:check-fails:" + errClass(err), What: fmt.Sprintf("a backup taken while Deletes were issued (%s) does not pass Check: %s", inside, errText(err)), Replay: replay})
		return held
	}
	bl, err := kOpen(bdir, bo)
	if err != nil {
		rep.Report(Violation{Property: "C20", Sig: "histmon|backup-vs-delete:open-fails:" + errClass(err), What: fmt.Sprintf("a backup taken while Deletes were issued (%s) does not open: %s", inside, errText(err)), Replay: replay})
		return held
	}
	defer kClose(bl)
	got, _, f := scanLog(bl, 5, 4096)
	if f != nil {
		rep.Report(Violation{Property: "C20", Sig: "histmon|backup-vs-delete:" + f.Sig, What: "reading a backup taken while Deletes were issued fails: " + f.What, Replay: replay})
		return held
	}
	which, ok := states[liveKey(got)]
	if !ok {
		replay["backup_shows"] = ref.OffsetsOf(got)
		rep.Report(Violation{Property: "C20", Sig: "histmon|backup-vs-delete:state-never-existed", What: fmt.Sprintf("the backup shows offsets %v: the source never held exactly these (before the deletes %v, deletes %v in that order, %s while the backup was held at %s #%d)", ref.OffsetsOf(got), ref.OffsetsOf(live), order, inside, point, nth), Replay: replay})
		return held
	}
	for i, m := range got {
		_ = i
		var want ref.Msg
		for _, x := range live {
			if x.Offset == m.Offset {
				want = x
			}
		}
		if !m.Equal(want) {
			rep.Report(Violation{Property: "C20", Sig: "histmon|backup-vs-delete:content", What: fmt.Sprintf("the backup holds %v, the source %v", m, want), Replay: replay})
			return held
		}
	}
	// all views of the backup agree with its scan (an old log next to a newer index shows here)
	bm := &ref.Model{Cfg: icfg, Live: got, Next: live[len(live)-1].Offset + 1}
	for _, m := range got {
		if f := getCell(bl, bm, m.Offset); f != nil {
			rep.Report(Violation{Property: "C20", Sig: "histmon|backup-vs-delete:views:" + f.Sig, What: "in a backup taken while Deletes were issued Get disagrees with the scan: " + f.What, Replay: replay})
			return held
		}
	}
	if icfg.Keys {
		for k := 0; k < 4; k++ {
			if f := getByKeyCell(bl, bm, []byte(fmt.Sprintf("k%d", k))); f != nil {
				rep.Report(Violation{Property: "C20", Sig: "histmon|backup-vs-delete:views:" + f.Sig, What: "in a backup taken while Deletes were issued GetByKey disagrees with the scan: " + f.What, Replay: replay})
				return held
			}
		}
	}
	cov.Add("c20conc.backup_state."+strings.ReplaceAll(which, " ", "_"), 1)
	if idx%25 == 0 {
		cov.Sample("c20-backup-vs-delete", map[string]any{"scenario": idx, "held_at": fmt.Sprintf("%s #%d", point, nth), "deletes": order, "deletes_while_held": inside, "backup_equals_source": which})
	}
	return held
}
