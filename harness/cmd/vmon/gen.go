package main

import (
	"fmt"
	"sort"
	"time"

	"verifharness/ref"
)

// ---------------------------------------------------------------------------------------
// operations of a sequential history (JSON-serialisable: replay files re-run the op list)

type PubMsg struct {
	Key      []byte `json:"k"`
	Value    []byte `json:"v"`
	T        int64  `json:"t"`
	NS       int    `json:"ns,omitempty"` // sub-microsecond part of the published time (the log keeps microseconds)
	ZeroTime bool   `json:"zero_time,omitempty"`
	Garbage  int64  `json:"garbage_offset,omitempty"`
}

type ClosedOp struct {
	Kind string `json:"kind"` // migrate1 migrate2 check recover stat
}

type Op struct {
	Kind      string     `json:"op"`
	Sub       string     `json:"sub,omitempty"`
	Variant   string     `json:"variant,omitempty"`
	TooBig    int        `json:"too_big,omitempty"`      // publish: the value of message TooBig-1 of the batch is replaced by one byte more than the format's 64 MiB bound: the Publish must fail and leave nothing behind
	CrashDel  []int64    `json:"crash_delete,omitempty"` // reopen: the directory is replaced by its image taken inside a Delete of these offsets (after the rewrite, before the swap)
	StopAfter int        `json:"stop_after,omitempty"`
	CancelAt  int        `json:"cancel_at,omitempty"` // multi variants: the context is cancelled before the call (-1) or inside the n-th backoff, which returns nil   // multi variants: the backoff fails on its n-th call (0 = never)
	Msgs      []PubMsg   `json:"msgs,omitempty"`
	Offsets   []int64    `json:"offsets,omitempty"`
	N         int64      `json:"n,omitempty"`
	Opts      *OpenOpts  `json:"opts,omitempty"`
	RemoveIdx []int64    `json:"remove_idx,omitempty"`
	RemoveAll bool       `json:"remove_all_idx,omitempty"`
	Closed    []ClosedOp `json:"closed,omitempty"`
	Note      string     `json:"note,omitempty"`
}

func (o Op) Short() string {
	switch o.Kind {
	case "publish":
		return fmt.Sprintf("publish(%d)", len(o.Msgs))
	case "delete":
		return fmt.Sprintf("delete%s(%s:%v)", o.Variant, o.Note, o.Offsets)
	case "trim":
		return fmt.Sprintf("trim-%s%s(%d)", o.Sub, o.Variant, o.N)
	case "compact":
		return fmt.Sprintf("compact-%s%s(%d)", o.Sub, o.Variant, o.N)
	case "gc":
		return fmt.Sprintf("gc(%d)", o.N)
	case "reopen":
		return fmt.Sprintf("reopen(%s rm=%v all=%v closed=%v)", jsonStr(o.Opts), o.RemoveIdx, o.RemoveAll, o.Closed)
	}
	return o.Kind
}

// ---------------------------------------------------------------------------------------
// key pool, incl. real 64-bit FNV-1a collisions (found offline, re-verified on every run)

var collisionPairs = [][2]string{
	{"pZOzvwgTh43", "H9iF9Ef624D"},
	{"FZBLhD0PIU6", "xS07W3UA08F"},
	{"Nfp61lD-he0", "yr0N2b_4h05"},
	{"OZtndb2vqAB", "3iXiXQIcAv6"},
	{"fsT5kzIjcP6", "FHSS-cjJEW7"},
	{"24MFWKfNE7D", "T5AFs5OWEwE"},
}

func collisionsValid() int {
	n := 0
	for _, p := range collisionPairs {
		if p[0] != p[1] && ref.KeyHash([]byte(p[0])) == ref.KeyHash([]byte(p[1])) {
			n++
		}
	}
	return n
}

var plainKeys = [][]byte{nil, {}, []byte("a"), []byte("a\x00"), []byte("ab"), []byte("b"), []byte("\x00"), []byte("key-3"), []byte("key-4"), []byte("k\xff")}

// drawKeyPool returns the keys a history publishes with, and extra keys only used for lookups.
func drawKeyPool(r *Rand, small bool) (pool [][]byte, absent [][]byte) {
	n := 3 + r.Intn(4)
	if small {
		n = 2 + r.Intn(2)
	}
	perm := r.Perm(len(plainKeys))
	for _, i := range perm[:n] {
		pool = append(pool, plainKeys[i])
	}
	for _, i := range perm[n:] {
		if len(absent) < 2 {
			absent = append(absent, plainKeys[i])
		}
	}
	// collisions: one pair fully in the pool, one pair with only one side present
	if r.Chance(0.7) {
		p := collisionPairs[r.Intn(len(collisionPairs))]
		pool = append(pool, []byte(p[0]), []byte(p[1]))
	}
	if r.Chance(0.6) {
		p := collisionPairs[r.Intn(len(collisionPairs))]
		side := r.Intn(2)
		pool = append(pool, []byte(p[side]))
		absent = append(absent, []byte(p[1-side]))
	}
	absent = append(absent, []byte("never-published"))
	return
}

func (r *Rand) Perm(n int) []int {
	p := make([]int, n)
	for i := range p {
		p[i] = i
	}
	for i := n - 1; i > 0; i-- {
		j := r.Intn(i + 1)
		p[i], p[j] = p[j], p[i]
	}
	return p
}

// ---------------------------------------------------------------------------------------
// profile: weights and knobs of the generator, per property

type Profile struct {
	W         map[string]int // op kind weights
	MaxBatch  int
	MaxVal    int
	Rollovers []int64
	TimeModes []string // inc, plateau, any, zero, wall
	Cfgs      []ref.IndexCfg
	SmallKeys bool
	Tombstone float64
	// reopen knobs
	PCheck, PRecover, PEager, PKeep, PAutoSync float64
	PRemoveIdx                                 float64
	PClosedOps                                 float64
	Versions                                   []int // NewVer choices
	NoV1                                       bool
	DeleteKinds                                []string
	TrimSubs                                   []string
	CompactSubs                                []string
}

var allCfgs = []ref.IndexCfg{{}, {Keys: true}, {Times: true}, {Times: true, Keys: true}}

func baseProfile() *Profile {
	return &Profile{
		W:        map[string]int{"publish": 40, "delete": 18, "trim": 4, "compact": 3, "gc": 4, "sync": 3, "stat": 2, "reopen": 10},
		MaxBatch: 5, MaxVal: 60,
		Rollovers: []int64{1, 7, 8, 36, 64, 100, 150, 200, 300, 500, 1 << 20},
		TimeModes: []string{"inc", "plateau", "any", "zero", "inc", "plateau"},
		Cfgs:      allCfgs,
		Tombstone: 0.15,
		PCheck:    0.25, PRecover: 0.25, PEager: 0.2, PKeep: 0.4, PAutoSync: 0.15, PRemoveIdx: 0.4, PClosedOps: 0.3,
		Versions:    []int{0, 1, 2, 2},
		DeleteKinds: []string{"one", "first-of-seg", "last-of-seg", "whole-seg", "tail-of-head", "whole-head", "everything", "already-deleted", "unassigned", "mixed", "random", "last-message", "span-segs"},
		TrimSubs:    []string{"offset", "count", "size", "age"},
		CompactSubs: []string{"updates", "deletes"},
	}
}

func profileFor(prop string) *Profile {
	p := baseProfile()
	switch prop {
	case "C02":
		p.W = map[string]int{"publish": 40, "delete": 30, "gc": 2, "sync": 6, "reopen": 18, "trim": 2}
		p.DeleteKinds = []string{"tail-of-head", "whole-head", "everything", "last-message", "last-of-seg", "one", "whole-seg", "random"}
	case "C03", "C04":
		p.W = map[string]int{"publish": 40, "delete": 30, "gc": 4, "reopen": 8, "trim": 4}
		p.DeleteKinds = []string{"first-of-seg", "last-of-seg", "whole-seg", "tail-of-head", "whole-head", "span-segs", "one", "random", "last-message", "everything"}
	case "C09":
		p.W = map[string]int{"publish": 45, "delete": 25, "gc": 5, "reopen": 10, "compact": 4, "trim": 3}
		p.Cfgs = []ref.IndexCfg{{Keys: true}, {Times: true, Keys: true}, {Keys: true}, {}}
		p.SmallKeys = false
	case "C10":
		p.W = map[string]int{"publish": 45, "delete": 25, "gc": 5, "reopen": 10, "trim": 3}
		p.Cfgs = []ref.IndexCfg{{Times: true}, {Times: true, Keys: true}, {Times: true}, {}}
		p.TimeModes = []string{"plateau", "plateau", "inc", "plateau", "inc", "preepoch"}
		p.MaxVal = 30
	case "C11":
		p.W = map[string]int{"publish": 40, "delete": 22, "gc": 3, "reopen": 20, "trim": 3, "compact": 2}
		p.PRemoveIdx = 0.2 // C11 does its own subset removal at each close
	case "C12":
		p.W = map[string]int{"publish": 40, "delete": 40, "gc": 3, "reopen": 10}
	case "C13":
		p.W = map[string]int{"publish": 40, "delete": 22, "gc": 5, "reopen": 15, "trim": 3, "stat": 5}
		p.PRemoveIdx = 0.6
	case "C15":
		p.W = map[string]int{"publish": 45, "delete": 15, "trim": 30, "gc": 2, "reopen": 6}
		p.TimeModes = []string{"inc", "plateau", "any", "plateau"}
	case "C16":
		p.W = map[string]int{"publish": 50, "delete": 8, "compact": 30, "gc": 2, "reopen": 6}
		p.SmallKeys = true
		p.Tombstone = 0.35
		p.Cfgs = allCfgs
		p.TimeModes = []string{"inc", "plateau", "any", "plateau", "wall"}
		p.CompactSubs = []string{"updates", "deletes", "updates", "deletes", "both"}
	case "C17":
		p.W = map[string]int{"publish": 40, "delete": 25, "gc": 2, "reopen": 28, "trim": 2}
		p.PEager = 0.35
		p.PClosedOps = 0.5
		p.Versions = []int{0, 1, 2, 1, 2}
	case "C20":
		p.W = map[string]int{"publish": 45, "delete": 20, "gc": 3, "reopen": 12, "backup": 18}
		p.PRemoveIdx = 0.5
	case "C19":
		p.W = map[string]int{"publish": 50, "delete": 20, "gc": 3, "reopen": 10, "rosession": 15}
	}
	return p
}

// ---------------------------------------------------------------------------------------
// generator state of one history

type GenState struct {
	r        *Rand
	prof     *Profile
	histID   string
	seq      int
	pool     [][]byte
	absent   [][]byte
	timeMode string
	lastT    int64
	wallBase int64
	big      bool     // a few histories keep everything in one huge segment (hundreds of messages)
	plan     []string // op kinds queued by a chain (C20)

	epochZero bool // C01: a few messages carry the time 1970-01-01T00:00:00Z exactly
}

const baseTime = int64(1_700_000_000_000_000)

func newGenState(r *Rand, prof *Profile, histID string) *GenState {
	g := &GenState{r: r, prof: prof, histID: histID}
	g.pool, g.absent = drawKeyPool(r, prof.SmallKeys)
	g.big = r.Chance(0.04)
	g.timeMode = pick(r, prof.TimeModes)
	g.lastT = baseTime + int64(r.Intn(1000))
	if g.timeMode == "preepoch" {
		// non-decreasing times that start shortly before 1970-01-01 and cross it
		g.lastT = -int64(10 + r.Intn(50))
	}
	if g.timeMode == "wall" {
		// message times minutes apart, starting two hours before now (used for Compact(age))
		g.wallBase = time.Now().Add(-2 * time.Hour).UnixMicro()
		g.lastT = g.wallBase
	}
	return g
}

func (g *GenState) allKeys() [][]byte {
	return append(append([][]byte(nil), g.pool...), g.absent...)
}

func (g *GenState) nextTime() (t int64, zero bool) {
	r := g.r
	switch g.timeMode {
	case "inc":
		g.lastT += int64(1 + r.Intn(3))
	case "plateau", "preepoch":
		if !r.Chance(0.6) {
			prev := g.lastT
			g.lastT += int64(1 + r.Intn(2))
			if prev < 0 && g.lastT > 0 {
				g.lastT = 0 // exactly 1970-01-01T00:00:00Z: a time like any other (not the zero time.Time)
			}
		}
	case "any":
		g.lastT = baseTime + int64(r.Intn(60)) - 20
	case "zero":
		return 0, true
	case "wall":
		g.lastT += int64(60+r.Intn(240)) * 1_000_000
	}
	return g.lastT, false
}

func (g *GenState) genMsg() PubMsg {
	r := g.r
	g.seq++
	var m PubMsg
	m.Key = pick(r, g.pool)
	if r.Chance(g.prof.Tombstone) {
		if r.Bool() {
			m.Value = nil
		} else {
			m.Value = []byte{}
		}
	} else {
		id := fmt.Sprintf("%s.%d|", g.histID, g.seq)
		pad := r.Intn(g.prof.MaxVal + 1)
		if r.Chance(0.05) {
			pad = 300
		}
		v := make([]byte, 0, len(id)+pad)
		v = append(v, id...)
		v = append(v, r.Bytes(pad)...)
		m.Value = v
	}
	m.T, m.ZeroTime = g.nextTime()
	if g.epochZero && !m.ZeroTime && r.Chance(0.06) {
		// exactly 1970-01-01T00:00:00Z, with or without a sub-microsecond part: UnixMicro() == 0 but not
		// the zero time.Time, so it is stored as it is
		m.T = 0
	}
	if !m.ZeroTime && r.Chance(0.5) {
		m.NS = 1 + r.Intn(999)
		if r.Bool() {
			m.NS = 500 + r.Intn(500)
		}
	}
	if r.Chance(0.3) {
		m.Garbage = int64(r.Intn(1000)) - 500
	}
	return m
}

func (g *GenState) genPublish() Op {
	r := g.r
	n := 1 + r.Intn(g.prof.MaxBatch)
	if r.Chance(0.08) {
		n = 0
	} else if r.Chance(0.04) || (g.big && r.Chance(0.5)) {
		n = 20 + r.Intn(30) // more than the helpers' internal Consume batch of 32
		if g.big {
			n += 30
		}
	}
	op := Op{Kind: "publish"}
	for i := 0; i < n; i++ {
		op.Msgs = append(op.Msgs, g.genMsg())
	}
	if n >= 1 && r.Chance(0.02) {
		op.TooBig = 1 + r.Intn(n)
	}
	return op
}

// segRanges: for each segment base the live offsets it holds (from the model and the directory listing)
func segLive(m *ref.Model, bases []int64) [][]int64 {
	out := make([][]int64, len(bases))
	for _, x := range m.Live {
		i := sort.Search(len(bases), func(i int) bool { return bases[i] > x.Offset }) - 1
		if i < 0 {
			i = 0
		}
		if len(bases) > 0 {
			out[i] = append(out[i], x.Offset)
		}
	}
	return out
}

func (g *GenState) genDeleteSet(m *ref.Model, lay Layout, kind string) []int64 {
	r := g.r
	live := ref.OffsetsOf(m.Live)
	segs := segLive(m, lay.Bases)
	var nonEmptySegs []int
	for i, s := range segs {
		if len(s) > 0 {
			nonEmptySegs = append(nonEmptySegs, i)
		}
	}
	var dead []int64
	for o := int64(0); o < m.Next; o++ {
		if !m.IsLive(o) {
			dead = append(dead, o)
		}
	}
	pickSeg := func() []int64 {
		if len(nonEmptySegs) == 0 {
			return nil
		}
		return segs[pick(r, nonEmptySegs)]
	}
	var head []int64
	if len(segs) > 0 {
		head = segs[len(segs)-1]
	}
	switch kind {
	case "one":
		if len(live) > 0 {
			return []int64{pick(r, live)}
		}
	case "first-of-seg":
		if s := pickSeg(); s != nil {
			n := 1 + r.Intn(min(2, len(s)))
			return append([]int64(nil), s[:n]...)
		}
	case "last-of-seg":
		if s := pickSeg(); s != nil {
			n := 1 + r.Intn(min(2, len(s)))
			return append([]int64(nil), s[len(s)-n:]...)
		}
	case "whole-seg":
		if s := pickSeg(); s != nil {
			return append([]int64(nil), s...)
		}
	case "tail-of-head":
		if len(head) > 0 {
			n := 1 + r.Intn(len(head))
			return append([]int64(nil), head[len(head)-n:]...)
		}
	case "whole-head":
		if len(head) > 0 {
			return append([]int64(nil), head...)
		}
	case "last-message":
		if len(live) > 0 {
			return []int64{live[len(live)-1]}
		}
	case "everything":
		return live
	case "already-deleted":
		if len(dead) > 0 {
			out := []int64{pick(r, dead)}
			if r.Bool() && len(dead) > 1 {
				out = append(out, pick(r, dead))
			}
			return out
		}
	case "unassigned":
		return []int64{m.Next + int64(r.Intn(3))}
	case "mixed":
		var out []int64
		if len(live) > 0 {
			out = append(out, pick(r, live))
			out = append(out, pick(r, live))
		}
		if len(dead) > 0 {
			out = append(out, pick(r, dead))
		}
		if r.Bool() {
			out = append(out, m.Next+int64(r.Intn(2)))
		}
		return out
	case "span-segs":
		if len(live) > 0 {
			i := r.Intn(len(live))
			n := 1 + r.Intn(min(8, len(live)-i))
			return append([]int64(nil), live[i:i+n]...)
		}
	case "random":
		var out []int64
		for _, o := range live {
			if r.Chance(0.3) {
				out = append(out, o)
			}
		}
		return out
	case "relative":
		out := []int64{int64(-1 - r.Intn(2))}
		if len(live) > 0 {
			out = append(out, pick(r, live))
		}
		return out
	case "empty":
		return []int64{}
	}
	if len(live) > 0 {
		return []int64{pick(r, live)}
	}
	return []int64{m.Next}
}

func (g *GenState) genDelete(m *ref.Model, lay Layout) Op {
	r := g.r
	kind := pick(r, g.prof.DeleteKinds)
	if r.Chance(0.03) {
		kind = "relative"
	} else if r.Chance(0.03) {
		kind = "empty"
	}
	op := Op{Kind: "delete", Note: kind, Offsets: g.genDeleteSet(m, lay, kind)}
	switch r.Intn(6) {
	case 0, 1:
		op.Variant = "multi"
	case 2:
		op.Variant = "multioffsets"
	}
	if op.Variant != "" && r.Chance(0.2) {
		op.StopAfter = 1 + r.Intn(3)
	} else if op.Variant != "" && r.Chance(0.15) {
		op.CancelAt = r.Intn(4) - 1
		if op.CancelAt == 0 {
			op.CancelAt = -1
		}
	}
	return op
}

func (g *GenState) genTrim(m *ref.Model, statSize int64, per func(ref.Msg) int64) Op {
	r := g.r
	op := Op{Kind: "trim", Sub: pick(r, g.prof.TrimSubs)}
	op.Variant = pick(r, []string{"", "multi", "multi", "multioffsets", "find"})
	if (op.Variant == "multi" || op.Variant == "multioffsets") && r.Chance(0.2) {
		op.StopAfter = 1 + r.Intn(3)
	} else if (op.Variant == "multi" || op.Variant == "multioffsets") && r.Chance(0.15) {
		op.CancelAt = r.Intn(4) - 1
		if op.CancelAt == 0 {
			op.CancelAt = -1
		}
	}
	switch op.Sub {
	case "offset":
		switch r.Intn(8) {
		case 0:
			op.N = -2
		case 1:
			op.N = -1
		default:
			op.N = r.Int63n(m.Next + 3)
		}
	case "count":
		op.N = int64(r.Intn(len(m.Live) + 3))
	case "size":
		switch r.Intn(6) {
		case 0:
			op.N = 0
		case 1:
			op.N = statSize + int64(r.Intn(100))
		case 2:
			op.N = statSize
		case 3:
			// an exact boundary of the size estimate: the target equals what is left after removing
			// the k oldest messages (no extra PRNG draw: k is the first prefix that reaches the drawn
			// target), so "below the target" and "at the target" are told apart (seeded change C15-n)
			op.N = r.Int63n(statSize + 1)
			total := statSize
			for _, lm := range m.Live {
				if total <= op.N {
					break
				}
				total -= per(lm)
			}
			if total >= 0 {
				op.N = total
			}
		default:
			op.N = r.Int63n(statSize + 1)
		}
	case "age":
		op.N = g.genCutoff(m)
	}
	return op
}

func (g *GenState) genCutoff(m *ref.Model) int64 {
	r := g.r
	if len(m.Live) == 0 {
		return baseTime
	}
	x := pick(r, m.Live).T
	switch r.Intn(6) {
	case 0:
		return m.Live[0].T - 5
	case 1:
		return m.Live[len(m.Live)-1].T + 5
	case 2:
		return x - 1
	case 3:
		return x + 1
	}
	return x
}

func (g *GenState) genCompact(m *ref.Model) Op {
	r := g.r
	op := Op{Kind: "compact", Sub: pick(r, g.prof.CompactSubs)}
	op.Variant = pick(r, []string{"", "multi", "multi", "multioffsets", "find"})
	if (op.Variant == "multi" || op.Variant == "multioffsets") && r.Chance(0.2) {
		op.StopAfter = 1 + r.Intn(3)
	} else if (op.Variant == "multi" || op.Variant == "multioffsets") && r.Chance(0.15) {
		op.CancelAt = r.Intn(4) - 1
		if op.CancelAt == 0 {
			op.CancelAt = -1
		}
	}
	op.N = g.genCutoff(m)
	if op.Sub == "both" {
		if g.timeMode != "wall" {
			op.Sub = pick(r, []string{"updates", "deletes"})
		} else {
			op.Variant = ""
		}
	}
	return op
}

// genOpenOpts draws options for a reopen. everNonDec: the published time sequence never decreased.
func (g *GenState) genOpenOpts(cfg ref.IndexCfg, everNonDec bool) OpenOpts {
	r, p := g.r, g.prof
	o := OpenOpts{KeyIndex: cfg.Keys, TimeIdx: cfg.Times}
	o.Rollover = pick(r, p.Rollovers)
	if g.big {
		o.Rollover = 1 << 20
	}
	o.AutoSync = r.Chance(p.PAutoSync)
	if !cfg.Times || everNonDec {
		o.Check = r.Chance(p.PCheck)
		o.Recover = r.Chance(p.PRecover)
	}
	o.NewVer = pick(r, p.Versions)
	o.KeepVer = r.Chance(p.PKeep)
	o.Eager = r.Chance(p.PEager)
	o.Typed = r.Chance(0.2)
	return o
}

func (g *GenState) genReopen(cfg ref.IndexCfg, lay Layout, everNonDec bool) Op {
	r, p := g.r, g.prof
	o := g.genOpenOpts(cfg, everNonDec)
	op := Op{Kind: "reopen", Opts: &o}
	if r.Chance(p.PRemoveIdx) && len(lay.Bases) > 0 {
		switch r.Intn(4) {
		case 0:
			op.RemoveAll = true
		case 1:
			op.RemoveIdx = []int64{pick(r, lay.Bases)}
		case 2:
			op.RemoveIdx = []int64{lay.Bases[len(lay.Bases)-1]}
		default:
			for _, b := range lay.Bases {
				if r.Bool() {
					op.RemoveIdx = append(op.RemoveIdx, b)
				}
			}
		}
	}
	if r.Chance(p.PClosedOps) {
		kinds := []string{"migrate1", "migrate2", "stat", "migrate2", "migrate1"}
		if !cfg.Times || everNonDec {
			kinds = append(kinds, "check", "recover")
		}
		n := 1 + r.Intn(2)
		for i := 0; i < n; i++ {
			op.Closed = append(op.Closed, ClosedOp{Kind: pick(r, kinds)})
		}
	}
	return op
}

// genOp draws the next operation.
func (g *GenState) genOp(h *Hist) Op {
	r := g.r
	kinds := make([]string, 0, len(g.prof.W))
	for k := range g.prof.W {
		kinds = append(kinds, k)
	}
	sort.Strings(kinds)
	w := make([]int, len(kinds))
	for i, k := range kinds {
		w[i] = g.prof.W[k]
	}
	// bias: young histories publish more
	kind := kinds[r.Weighted(w)]
	if len(h.model.Live) < 3 && r.Chance(0.6) {
		kind = "publish"
	}
	lay := layoutOf(h.dir)
	// C20: chains "backup, publish(es), reopen that removes index files and is not followed by a
	// read, backup again": the repeated backup meets segments that changed under their old name and
	// whose index file is missing in the source but present in the target
	if g.prof.W["backup"] > 0 {
		if len(g.plan) == 0 && len(h.ops) > 0 && h.ops[len(h.ops)-1].Kind == "backup" && r.Chance(0.35) {
			g.plan = []string{"publish", "publish", "reopen-noindex", "backup"}
			if r.Bool() {
				g.plan = g.plan[1:]
			}
		}
		if len(g.plan) == 0 && len(h.model.Live) > 0 && len(h.ops) > 6 && r.Chance(0.04) {
			// everything deleted (a single empty segment that only keeps the next offset), then a
			// backup through a read-only handle
			g.plan = []string{"delete-all", "backup-ro"}
		}
		if len(g.plan) > 0 {
			kind, g.plan = g.plan[0], g.plan[1:]
			switch kind {
			case "delete-all":
				return Op{Kind: "delete", Note: "everything", Variant: "multi", Offsets: g.genDeleteSet(h.model, lay, "everything")}
			case "backup-ro":
				return Op{Kind: "backup", Variant: "method-ro"}
			}
			if kind == "reopen-noindex" {
				o := g.genOpenOpts(h.cfg, h.everNonDec)
				o.Eager = false
				op := Op{Kind: "reopen", Opts: &o, Note: "no-observe"}
				if r.Bool() {
					op.RemoveAll = true
				} else {
					for _, b := range lay.Bases {
						if r.Bool() {
							op.RemoveIdx = append(op.RemoveIdx, b)
						}
					}
				}
				return op
			}
		}
	}
	switch kind {
	case "publish":
		return g.genPublish()
	case "delete":
		return g.genDelete(h.model, lay)
	case "trim":
		_, sz := dirSizes(h.dir)
		return g.genTrim(h.model, sz, func(lm ref.Msg) int64 { return int64(ref.RecordSize(lm, h.opts.EffVer()) + h.cfg.ItemSize()) })
	case "compact":
		return g.genCompact(h.model)
	case "gc":
		if r.Chance(0.8) {
			return Op{Kind: "gc", N: 0}
		}
		return Op{Kind: "gc", N: int64(time.Hour)}
	case "sync":
		return Op{Kind: "sync"}
	case "stat":
		return Op{Kind: "stat"}
	case "reopen":
		op := g.genReopen(h.cfg, lay, h.everNonDec)
		if r.Chance(0.12) && len(h.model.Live) > 0 && !h.opts.Readonly {
			op.CrashDel = g.genDeleteSet(h.model, lay, pick(r, []string{"one", "first-of-seg", "last-of-seg", "random", "tail-of-head", "whole-seg", "last-message"}))
		}
		return op
	case "backup":
		return Op{Kind: "backup", Variant: pick(r, []string{"method", "package", "method-ro", "method"})}
	case "rosession":
		return Op{Kind: "rosession"}
	}
	return g.genPublish()
}
