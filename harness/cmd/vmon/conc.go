package main

import (
	"bytes"
	"fmt"
	"os"
	"path/filepath"
	"runtime"
	"sort"
	"strconv"
	"strings"
	"sync"
	"sync/atomic"
	"time"

	"github.com/klev-dev/klevdb"
	"github.com/klev-dev/klevdb/pkg/vhook"

	"verifharness/ref"
)

// concmon infrastructure: hook handler (controlled / perturb), goroutine identity, call recording.

// ---------------------------------------------------------------------------------------
// goroutine identity and wait states

func goid() int64 {
	var buf [64]byte
	n := runtime.Stack(buf[:], false)
	// "goroutine 123 [running]:"
	s := buf[10:n]
	i := bytes.IndexByte(s, ' ')
	if i < 0 {
		return -1
	}
	id, _ := strconv.ParseInt(string(s[:i]), 10, 64)
	return id
}

// waitStates parses runtime.Stack(all) and returns goroutine id -> (wait state, top function).
func waitStates() map[int64][2]string {
	buf := make([]byte, 1<<20)
	for {
		n := runtime.Stack(buf, true)
		if n < len(buf) {
			buf = buf[:n]
			break
		}
		buf = make([]byte, 2*len(buf))
	}
	out := map[int64][2]string{}
	for _, blk := range bytes.Split(buf, []byte("\n\n")) {
		if !bytes.HasPrefix(blk, []byte("goroutine ")) {
			continue
		}
		nl := bytes.IndexByte(blk, '\n')
		if nl < 0 {
			continue
		}
		hdr := string(blk[:nl])
		rest := blk[nl+1:]
		f := strings.Fields(hdr)
		if len(f) < 3 {
			continue
		}
		id, _ := strconv.ParseInt(f[1], 10, 64)
		st := hdr[strings.IndexByte(hdr, '[')+1:]
		if i := strings.IndexAny(st, ",]"); i >= 0 {
			st = st[:i]
		}
		// first klevdb frame
		top := ""
		for _, ln := range bytes.Split(rest, []byte("\n")) {
			if bytes.HasPrefix(ln, []byte("github.com/klev-dev/klevdb")) {
				top = string(ln)
				if i := strings.LastIndex(top, "("); i > 0 {
					top = top[:i]
				}
				break
			}
		}
		out[id] = [2]string{st, top}
	}
	return out
}

func isBlockedState(st string) bool {
	switch st {
	case "sync.Mutex.Lock", "sync.RWMutex.RLock", "sync.RWMutex.Lock", "semacquire", "select", "chan receive", "chan send", "sync.WaitGroup.Wait", "sync.Cond.Wait":
		return true
	}
	return false
}

// ---------------------------------------------------------------------------------------
// hook handler

type hookClient struct {
	id   int
	rng  *Rand // perturb: private PRNG (never shared)
	hits map[string]int
	// controlled
	armPoint string
	armNth   int
	arrived  chan string
	release  chan struct{}
	// statistics, private to the goroutine until joined
	points map[string]int
	slept  int
}

type hookMode struct {
	perturb bool
	// read-only after start
	clients map[int64]*hookClient
	// controlled mode uses a mutex-protected registry (synchronisation is fine there)
	mu  sync.Mutex
	dyn map[int64]*hookClient
}

var curHook atomic.Pointer[hookMode]

func installHook(h *hookMode) {
	curHook.Store(h)
	vhook.Set(hookAt)
}

// hookAt is the handler behind every pkg/vhook point; harness-side shims (innerShim) call it
// directly for pause points that lie outside klevdb.
func hookAt(point string) {
	{
		hm := curHook.Load()
		if hm == nil {
			return
		}
		if hm.perturb {
			c := hm.clients[goid()]
			if c == nil {
				return
			}
			c.points[point]++
			switch x := c.rng.Intn(100); {
			case x < 55:
			case x < 75:
				runtime.Gosched()
			case x < 93:
				time.Sleep(time.Duration(10+c.rng.Intn(200)) * time.Microsecond)
				c.slept++
			default:
				time.Sleep(time.Duration(300+c.rng.Intn(2700)) * time.Microsecond)
				c.slept++
			}
			return
		}
		hm.mu.Lock()
		c := hm.dyn[goid()]
		hm.mu.Unlock()
		if c == nil {
			return
		}
		c.points[point]++
		if c.armPoint == point {
			c.hits[point]++
			if c.hits[point] == c.armNth {
				c.arrived <- point
				<-c.release
			}
		}
	}
}

// ---------------------------------------------------------------------------------------
// recorded calls

type cOp struct {
	Client  int       `json:"client"`
	Kind    string    `json:"kind"`
	N       int       `json:"n,omitempty"`
	Off     int64     `json:"off,omitempty"`
	Max     int64     `json:"max,omitempty"`
	Key     []byte    `json:"key,omitempty"`
	T       int64     `json:"t,omitempty"`
	Offsets []int64   `json:"offsets,omitempty"`
	Big     bool      `json:"big,omitempty"`
	Pub     []ref.Msg `json:"-"`
	PubT    []int64   `json:"pub_times,omitempty"`
	OutT    []int64   `json:"out_times,omitempty"`
	// outputs
	Next    int64        `json:"next"`
	Out     []ref.Msg    `json:"-"`
	OutOffs []int64      `json:"out,omitempty"`
	Err     string       `json:"err,omitempty"`
	ErrText string       `json:"err_text,omitempty"`
	Stat    klevdb.Stats `json:"-"`
	Call    int64        `json:"call"`
	Ret     int64        `json:"ret"`
	Done    bool         `json:"done"`
	Note    string       `json:"note,omitempty"`
}

func (o *cOp) String() string {
	switch o.Kind {
	case "publish":
		return fmt.Sprintf("c%d Publish(%d)->%d %s", o.Client, o.N, o.Next, o.Err)
	case "consume":
		return fmt.Sprintf("c%d Consume(%d,%d)->%d %v %s", o.Client, o.Off, o.Max, o.Next, o.OutOffs, o.Err)
	case "consumebykey":
		return fmt.Sprintf("c%d ConsumeByKey(%q,%d,%d)->%d %v %s", o.Client, o.Key, o.Off, o.Max, o.Next, o.OutOffs, o.Err)
	case "get":
		return fmt.Sprintf("c%d Get(%d)->%v %s", o.Client, o.Off, o.OutOffs, o.Err)
	case "getbykey":
		return fmt.Sprintf("c%d GetByKey(%q)->%v %s", o.Client, o.Key, o.OutOffs, o.Err)
	case "getbytime":
		return fmt.Sprintf("c%d GetByTime(%d)->%v %s", o.Client, o.T, o.OutOffs, o.Err)
	case "delete":
		return fmt.Sprintf("c%d Delete(%v)->%v %s", o.Client, o.Offsets, o.OutOffs, o.Err)
	}
	return fmt.Sprintf("c%d %s->%d %s", o.Client, o.Kind, o.Next, o.Err)
}

var monoBase = time.Now()

func nowNS() int64 { return int64(time.Since(monoBase)) }

// execOp runs one recorded call. Call is read before the invocation and Ret after the return, so
// recorded intervals are only ever wider than the real ones.
func execOp(l klevdb.Log, o *cOp) {
	var err error
	switch o.Kind {
	case "publish":
		msgs := make([]klevdb.Message, len(o.Pub))
		for i, m := range o.Pub {
			msgs[i] = klevdb.Message{Key: m.Key, Value: m.Value}
		}
		o.Call = nowNS()
		o.Next, err = kPublish(l, msgs)
		o.Ret = nowNS()
		if err == nil {
			o.Pub = toRefs(msgs)
			o.OutOffs = ref.OffsetsOf(o.Pub)
		}
	case "consume":
		var ms []klevdb.Message
		o.Call = nowNS()
		o.Next, ms, err = kConsume(l, o.Off, o.Max)
		o.Ret = nowNS()
		o.Out = toRefs(ms)
	case "consumebykey":
		var ms []klevdb.Message
		o.Call = nowNS()
		o.Next, ms, err = kConsumeByKey(l, o.Key, o.Off, o.Max)
		o.Ret = nowNS()
		o.Out = toRefs(ms)
	case "get":
		var m klevdb.Message
		o.Call = nowNS()
		m, err = kGet(l, o.Off)
		o.Ret = nowNS()
		if err == nil {
			o.Out = []ref.Msg{toRef(m)}
		}
	case "getbykey":
		var m klevdb.Message
		o.Call = nowNS()
		m, err = kGetByKey(l, o.Key)
		o.Ret = nowNS()
		if err == nil {
			o.Out = []ref.Msg{toRef(m)}
		}
	case "getbytime":
		var m klevdb.Message
		o.Call = nowNS()
		m, err = kGetByTime(l, o.T)
		o.Ret = nowNS()
		if err == nil {
			o.Out = []ref.Msg{toRef(m)}
		}
	case "delete":
		var del []klevdb.Message
		o.Call = nowNS()
		del, _, err = kDelete(l, offsetSet(o.Offsets))
		o.Ret = nowNS()
		o.Out = toRefs(del)
	case "sync":
		o.Call = nowNS()
		o.Next, err = kSync(l)
		o.Ret = nowNS()
	case "next":
		o.Call = nowNS()
		o.Next, err = kNext(l)
		o.Ret = nowNS()
	case "stat":
		o.Call = nowNS()
		o.Stat, err = kStat(l)
		o.Ret = nowNS()
	case "gc":
		o.Call = nowNS()
		err = kGC(l, 0)
		o.Ret = nowNS()
	}
	if o.Kind != "publish" {
		o.OutOffs = ref.OffsetsOf(o.Out)
	}
	if err != nil {
		o.Err = errClass(err)
		o.ErrText = errText(err)
		if isPanic(err) {
			o.Err = "panic:" + panicFrame(err)
		}
	}
	o.Done = true
}

// ---------------------------------------------------------------------------------------
// race log

type raceReport struct {
	frames string // dedup key: the first klevdb frame of each of the two stacks
	text   string
}

var harnessRaces int

func readRaceLogs() []raceReport {
	harnessRaces = 0
	gr := os.Getenv("GORACE")
	var prefix string
	for _, f := range strings.Fields(gr) {
		if strings.HasPrefix(f, "log_path=") {
			prefix = strings.TrimPrefix(f, "log_path=")
		}
	}
	if prefix == "" {
		return nil
	}
	files, _ := filepath.Glob(prefix + ".*")
	var out []raceReport
	for _, fn := range files {
		if !strings.HasSuffix(fn, "."+strconv.Itoa(os.Getpid())) {
			continue
		}
		b, err := os.ReadFile(fn)
		if err != nil {
			continue
		}
		for _, blk := range strings.Split(string(b), "==================") {
			if !strings.Contains(blk, "WARNING: DATA RACE") {
				continue
			}
			// stacks are separated by blank lines; take the first klevdb frame of the first two stacks
			var frames []string
			for _, st := range strings.Split(blk, "\n\n") {
				if !(strings.Contains(st, "by goroutine") || strings.Contains(st, "by main goroutine")) {
					continue
				}
				for _, ln := range strings.Split(st, "\n") {
					ln = strings.TrimSpace(ln)
					if strings.HasPrefix(ln, "github.com/klev-dev/klevdb") {
						if i := strings.LastIndex(ln, "("); i > 0 {
							ln = ln[:i]
						}
						frames = append(frames, strings.TrimPrefix(ln, "github.com/klev-dev/"))
						break
					}
				}
				if len(frames) == 2 {
					break
				}
			}
			if len(frames) == 0 {
				// a race that does not involve klevdb code: a harness fault, never a verdict on klevdb
				harnessRaces++
				continue
			}
			sort.Strings(frames)
			out = append(out, raceReport{frames: strings.Join(frames, " <-> "), text: clipStr(blk, 4000)})
		}
	}
	return out
}

func raceEnabled() bool { return raceBuild }
