package main

import (
	"context"
	"fmt"
	"math"
	"os"
	"path/filepath"
	"time"

	"github.com/klev-dev/klevdb"
)

// compactage: Compact(age) derives its two cut-offs from the wall clock (now-age for updates,
// now-2*age for tombstones). For every age - also the largest ones, where "never" is meant - it may
// remove only messages not newer than those cut-offs. With message times around now and ages of a
// century and more nothing qualifies: the log must read the same before and after. Part of C16.
func runCompactAges(cfg *RunCfg, rep *Reporter, cov *Cov) {
	ages := []time.Duration{time.Duration(math.MaxInt64), time.Duration(math.MaxInt64 / 2), time.Duration(math.MaxInt64/2 + 1), 200 * 365 * 24 * time.Hour, 100 * 365 * 24 * time.Hour, 24 * time.Hour}
	for k, age := range ages {
		dir := filepath.Join(cfg.Scratch, fmt.Sprintf("cage%d", k))
		l, err := kOpen(dir, OpenOpts{Rollover: 200, Create: true, KeyIndex: k%2 == 0, TimeIdx: k%3 == 0})
		if err != nil {
			continue
		}
		now := time.Now().UTC()
		var msgs []klevdb.Message
		for i := 0; i < 12; i++ {
			m := klevdb.Message{Key: []byte(fmt.Sprintf("k%d", i%4)), Time: now.Add(time.Duration(i-20) * time.Minute)}
			if i%3 != 0 {
				m.Value = []byte(fmt.Sprintf("v%d", i))
			}
			msgs = append(msgs, m)
		}
		kPublish(l, msgs)
		before, _, f1 := scanLog(l, 5, 100)
		cerr := guard(func() error { return klevdb.Compact(context.Background(), l, age, noBackoff) })
		after, _, f2 := scanLog(l, 5, 100)
		cov.Add("evaluations", 1)
		cov.Distinct("c16", fmt.Sprintf("compact-age|%v", age > 100*365*24*time.Hour))
		replay := map[string]any{"age_ns": int64(age), "messages": len(msgs)}
		switch {
		case f1 != nil || f2 != nil:
		case cerr != nil:
			rep.Report(Violation{Property: "C16", Sig: "histmon|compact-age:error:" + errClass(cerr), What: fmt.Sprintf("Compact(age=%v) failed: %s", age, errText(cerr)), Replay: replay})
		case len(after) != len(before):
			var gone []int64
			live := map[int64]bool{}
			for _, m := range after {
				live[m.Offset] = true
			}
			for _, m := range before {
				if !live[m.Offset] {
					gone = append(gone, m.Offset)
				}
			}
			rep.Report(Violation{Property: "C16", Sig: "histmon|compact-age:removed-newer-than-cutoff", What: fmt.Sprintf("Compact(age=%v) removed offsets %v of messages that are at most 20 minutes old: its cut-offs are now-age and now-2*age, nothing is that old", age, gone), Replay: replay})
		}
		kClose(l)
		os.RemoveAll(dir)
	}
}
