package main

import (
	"context"
	"fmt"
	"math"
	"os"
	"path/filepath"
	"time"

	"github.com/klev-dev/klevdb"
)

// compactage: Compact(age) derives its two cut-offs from the wall clock (now-age for updates,
// now-2*age for tombstones). For every age - also the largest ones, where "never" is meant - it may
// remove only messages not newer than those cut-offs. With message times around now and ages of a
// century and more nothing qualifies: the log must read the same before and after. Part of C16.
// runCompactManyKeys: the compaction scans keep per-key state; with more distinct keys than any
// internal bound might allow (70 000) the rules are the same: the latest value of every key survives
// CompactUpdates and CompactDeletes, a tombstone that is not the oldest message of its key stays.
func runCompactManyKeys(cfg *RunCfg, rep *Reporter, cov *Cov) {
	dir := filepath.Join(cfg.Scratch, "cmany")
	defer os.RemoveAll(dir)
	l, err := kOpen(dir, OpenOpts{Rollover: 1 << 20, Create: true, KeyIndex: true})
	if err != nil {
		return
	}
	defer kClose(l)
	t0 := time.Now().UTC().Add(-48 * time.Hour)
	var batch []klevdb.Message
	n := 70000
	for i := 0; i < n; i++ {
		batch = append(batch, klevdb.Message{Key: []byte(fmt.Sprintf("key-%06d", i)), Value: []byte("v"), Time: t0.Add(time.Duration(i) * time.Millisecond)})
		if len(batch) == 5000 {
			kPublish(l, batch)
			batch = nil
		}
	}
	// behind them: a key with a value and then its tombstone, and a key updated once
	tail := []klevdb.Message{
		{Key: []byte("victim"), Value: []byte("v1"), Time: t0.Add(80 * time.Second)},
		{Key: []byte("upd"), Value: []byte("old"), Time: t0.Add(81 * time.Second)},
		{Key: []byte("victim"), Time: t0.Add(82 * time.Second)},
		{Key: []byte("upd"), Value: []byte("new"), Time: t0.Add(83 * time.Second)},
	}
	kPublish(l, tail)
	cut := time.Now().UTC().Add(-time.Hour)
	ctx := context.Background()
	for _, which := range []string{"deletes", "updates", "deletes"} {
		var del map[int64]struct{}
		cerr := guard(func() error {
			var e error
			if which == "deletes" {
				del, _, e = klevdb.CompactDeletesMultiOffsets(ctx, l, cut, noBackoff)
			} else {
				del, _, e = klevdb.CompactUpdatesMultiOffsets(ctx, l, cut, noBackoff)
			}
			return e
		})
		cov.Add("evaluations", 1)
		cov.Distinct("c16", "compact-many-keys|"+which)
		if cerr != nil {
			rep.Report(Violation{Property: "C16", Sig: "histmon|compact-many-keys:error:" + errClass(cerr), What: fmt.Sprintf("Compact%s over %d keys failed: %s", which, n, errText(cerr)), Replay: map[string]any{"keys": n}})
			return
		}
		v, verr := kGetByKey(l, []byte("victim"))
		u, uerr := kGetByKey(l, []byte("upd"))
		switch {
		case (verr != nil && errClass(verr) != "ErrNotFound") || (verr == nil && v.Value != nil):
			rep.Report(Violation{Property: "C16", Sig: "histmon|compact-many-keys:latest-changed", What: fmt.Sprintf("after Compact%s over %d distinct keys the last message of key 'victim' (a tombstone behind a value) is %q err=%s: the key is no longer absent (removed offsets: %d)", which, n, v.Value, errText(verr), len(del)), Replay: map[string]any{"keys": n, "step": which}})
			return
		case uerr != nil || string(u.Value) != "new":
			rep.Report(Violation{Property: "C16", Sig: "histmon|compact-many-keys:latest-changed", What: fmt.Sprintf("after Compact%s over %d distinct keys the latest value of key 'upd' is %q err=%s, want \"new\"", which, n, u.Value, errText(uerr)), Replay: map[string]any{"keys": n, "step": which}})
			return
		}
	}
}

func runCompactAges(cfg *RunCfg, rep *Reporter, cov *Cov) {
	ages := []time.Duration{time.Duration(math.MaxInt64), time.Duration(math.MaxInt64 / 2), time.Duration(math.MaxInt64/2 + 1), 200 * 365 * 24 * time.Hour, 100 * 365 * 24 * time.Hour, 24 * time.Hour}
	for k, age := range ages {
		dir := filepath.Join(cfg.Scratch, fmt.Sprintf("cage%d", k))
		l, err := kOpen(dir, OpenOpts{Rollover: 200, Create: true, KeyIndex: k%2 == 0, TimeIdx: k%3 == 0})
		if err != nil {
			continue
		}
		now := time.Now().UTC()
		var msgs []klevdb.Message
		for i := 0; i < 12; i++ {
			m := klevdb.Message{Key: []byte(fmt.Sprintf("k%d", i%4)), Time: now.Add(time.Duration(i-20) * time.Minute)}
			if i%3 != 0 {
				m.Value = []byte(fmt.Sprintf("v%d", i))
			}
			msgs = append(msgs, m)
		}
		kPublish(l, msgs)
		before, _, f1 := scanLog(l, 5, 100)
		cerr := guard(func() error { return klevdb.Compact(context.Background(), l, age, noBackoff) })
		after, _, f2 := scanLog(l, 5, 100)
		cov.Add("evaluations", 1)
		cov.Distinct("c16", fmt.Sprintf("compact-age|%v", age > 100*365*24*time.Hour))
		replay := map[string]any{"age_ns": int64(age), "messages": len(msgs)}
		switch {
		case f1 != nil || f2 != nil:
		case cerr != nil:
			rep.Report(Violation{Property: "C16", Sig: "histmon|compact-age:error:" + errClass(cerr), What: fmt.Sprintf("Compact(age=%v) failed: %s", age, errText(cerr)), Replay: replay})
		case len(after) != len(before):
			var gone []int64
			live := map[int64]bool{}
			for _, m := range after {
				live[m.Offset] = true
			}
			for _, m := range before {
				if !live[m.Offset] {
					gone = append(gone, m.Offset)
				}
			}
			rep.Report(Violation{Property: "C16", Sig: "histmon|compact-age:removed-newer-than-cutoff", What: fmt.Sprintf("Compact(age=%v) removed offsets %v of messages that are at most 20 minutes old: its cut-offs are now-age and now-2*age, nothing is that old", age, gone), Replay: replay})
		}
		kClose(l)
		os.RemoveAll(dir)
	}
}
