package main

import (
	"bytes"
	"encoding/json"
	"fmt"
	"os"
	"runtime"
	"strings"
	"sync/atomic"
	"time"
)

// A monitor that calls into a library with a lock-order fault must not hang with it. stuckWatch runs
// next to every engine and decides "a call into klevdb can never return" on goroutine states, not on
// time: in 60 consecutive snapshots (half a second apart)
//   - at least one goroutine is parked on a sync.Mutex / sync.RWMutex with a klevdb frame on top of
//     its stack (below runtime and sync),
//   - every other goroutine that is inside klevdb is parked as well (lock, channel, select, cond), and
//   - no goroutine is inside a callback from klevdb into the harness (pause points, codecs, shims):
//     those are windows the harness holds open on purpose and ends itself.
// Nothing is then left that could release the lock. The engines with their own verdicts for this
// (C08 judgeStuck, c18Close, C20 backup-vs-delete) get there first; this is the net below them and
// the only one for the sequential engines. It reports the violation and ends the process, because
// the engine's own goroutine is the one that is stuck.

type gState struct {
	state    string
	top      string // first klevdb frame
	callback bool   // a harness frame above the first klevdb frame
}

// stuckPaused: set by passes that measure the allocations of single calls (C14), so that the
// watch does not allocate inside their windows; its snapshot buffer is allocated once.
var stuckPaused atomic.Bool
var stuckBuf = make([]byte, 1<<20)

func klevStates() []gState {
	var buf []byte
	for {
		n := runtime.Stack(stuckBuf, true)
		if n < len(stuckBuf) {
			buf = stuckBuf[:n]
			break
		}
		stuckBuf = make([]byte, 2*len(stuckBuf))
	}
	var out []gState
	for _, blk := range bytes.Split(buf, []byte("\n\n")) {
		if !bytes.HasPrefix(blk, []byte("goroutine ")) {
			continue
		}
		nl := bytes.IndexByte(blk, '\n')
		if nl < 0 {
			continue
		}
		hdr := string(blk[:nl])
		st := hdr[strings.IndexByte(hdr, '[')+1:]
		if i := strings.IndexAny(st, ",]"); i >= 0 {
			st = st[:i]
		}
		g := gState{state: st}
		for _, ln := range bytes.Split(blk[nl+1:], []byte("\n")) {
			if bytes.HasPrefix(ln, []byte("\t")) || bytes.HasPrefix(ln, []byte("created by")) {
				continue
			}
			if bytes.HasPrefix(ln, []byte("main.")) {
				g.callback = true
			}
			if bytes.HasPrefix(ln, []byte("github.com/klev-dev/klevdb")) {
				g.top = string(ln)
				if i := strings.LastIndex(g.top, "("); i > 0 {
					g.top = g.top[:i]
				}
				break
			}
		}
		if g.top != "" {
			out = append(out, g)
		}
	}
	return out
}

func stuckWatch(cfg *RunCfg, rep *Reporter, cov *Cov, ev *Evidence, start time.Time) {
	run := 0
	for {
		time.Sleep(500 * time.Millisecond)
		if stuckPaused.Load() {
			run = 0
			continue
		}
		gs := klevStates()
		var locked []string
		free := false
		for _, g := range gs {
			switch {
			case g.callback:
				free = true
			case isLockState(g.state):
				locked = append(locked, g.state+" in "+strings.TrimPrefix(g.top, "github.com/klev-dev/"))
			case !isBlockedState(g.state):
				free = true
			}
		}
		if len(locked) > 0 && !free {
			run++
		} else {
			run = 0
		}
		if run < 60 {
			continue
		}
		var all []string
		for _, g := range gs {
			all = append(all, g.state+" in "+strings.TrimPrefix(g.top, "github.com/klev-dev/"))
		}
		fn := locked[0][strings.LastIndex(locked[0], " in ")+4:]
		rep.Report(Violation{Property: cfg.Property, Sig: cfg.Engine + "|call-never-returns:" + fn, What: fmt.Sprintf("a call into the library can never return: %s, and every other goroutine inside the library is parked too (%d of them; 60 consecutive snapshots)", locked[0], len(gs)-1), Replay: map[string]any{"goroutines_inside_klevdb": all, "seed": cfg.Seed}})
		if cfg.Shards > 0 {
			b, _ := json.Marshal(dumpShard(rep, cov))
			fmt.Printf("SHARD-RESULT %s\n", b)
			os.Exit(0)
		}
		ev.Coverage["evaluations"] = cov.Get("evaluations")
		ev.Coverage["ended_by"] = "stuck-call watch (the engine's own goroutine was inside the call that cannot return)"
		code := rep.Finish(ev)
		ev.Write(cfg.Evidence, start)
		fmt.Printf("%s %s seed=%d: ended by the stuck-call watch, violations=%d\n", cfg.Property, cfg.Tier, cfg.Seed, ev.Violations)
		os.RemoveAll(cfg.Scratch)
		os.Exit(code)
	}
}
