package main

import (
	"bytes"
	"fmt"
	"os"
	"path/filepath"
	"runtime"
	"runtime/debug"
	"sort"
	"strings"

	"github.com/klev-dev/klevdb"

	"verifharness/ref"
)

// dmgmon: damage-injection monitor. C07 (Recover/Check on a damaged head segment) and
// C14 (reads of a damaged multi-segment log).

func init() {
	engines["dmgmon"] = func(cfg *RunCfg, rep *Reporter, cov *Cov, ev *Evidence) {
		if cfg.Property == "C07" {
			runC07(cfg, rep, cov)
		} else {
			runC14(cfg, rep, cov)
		}
		ev.Coverage["evaluations"] = cov.Get("evaluations")
		ev.Coverage["distinct_nontrivial"] = int64(cov.SetSize("dmg"))
		ev.Coverage["distinct_examples"] = cov.SetMembers("dmg", 16)
		ev.Coverage["subjects"] = cov.Get("subjects")
		ev.Coverage["damages_by_kind"] = cov.Counts("damage.")
		ev.Coverage["outcomes"] = cov.Counts("outcome.")
		ev.Coverage["samples"] = cov.Samples()
		ev.Coverage["selfcheck_clean_subjects_ok"] = cov.Get("selfcheck.ok")
	}
	props["C07"] = propInfo{Engine: "dmgmon", Level: "fault_enumeration",
		Rule:   "for each generated head segment: every truncation length, every byte position after the file header x {xor 01, xor 80, xor FF, :=00}, zero/FF/random/half-record tails of every length up to two records, every index damage (missing, truncated at every length, every byte x 4 edits, extra items, other cfg); Check/Recover/Open(Check|Recover) results compared with what the reference parser says about the damaged bytes. distinct_nontrivial = distinct (version, index cfg, damage kind, position class, reference verdict) tuples",
		Assume: []string{"harness/ref codec decides which records are valid (independent of klevdb's packages)", "the 8-byte file header is intact or the file is empty (as the property's quantifier states)"}}
	props["C14"] = propInfo{Engine: "dmgmon", Level: "fault_enumeration",
		Rule:   "for each generated 3-segment V2 log: every single-bit flip, 1-8 byte overwrites at every position with zeros/FF/random/neighbour copy, every truncation length and zero tails, applied to the closed directory; then Open with default options and every read call of a fixed list judged against the clean baseline (a: must fail, b: must equal baseline, c: fail or baseline; never a wrong field, never a panic, allocation bound). distinct_nontrivial = distinct (damaged segment role, damage kind, position class inside the record, call kind, verdict class) tuples",
		Assume: []string{"harness/ref codec maps damaged bytes to records", "index files are intact (as the property states)", "an 8-byte overwrite that keeps CRC-32C valid (p ~ 2^-32) is ignored"}}
}

// ---------------------------------------------------------------------------------------
// C07

type c07Subject struct {
	ver   ref.Version
	cfg   ref.IndexCfg
	base  int64
	msgs  []ref.Msg
	log   []byte
	index []byte
	spans []ref.Span
}

func genC07Subject(r *Rand, i int) c07Subject {
	s := c07Subject{ver: ref.V2, cfg: allCfgs[i%4]}
	if i%5 == 4 {
		s.ver = ref.V1
	}
	if r.Bool() {
		s.base = int64(1 + r.Intn(1000))
	}
	n := 1 + r.Intn(6)
	t := baseTime + int64(r.Intn(100))
	anyTimes := i%3 == 2 // "random messages": times in any order (the index keeps a running maximum)
	for j := 0; j < n; j++ {
		m := ref.Msg{Offset: s.base + int64(j), T: t}
		t += int64(r.Intn(3))
		if anyTimes {
			t = baseTime + int64(r.Intn(100))
		}
		if kl := r.Intn(41); kl > 0 && !r.Chance(0.15) {
			m.Key = r.Bytes(kl)
		}
		if vl := r.Intn(41); vl > 0 && !r.Chance(0.15) {
			m.Value = r.Bytes(vl)
		}
		s.msgs = append(s.msgs, m)
	}
	s.log = ref.EncodeLog(s.msgs, s.ver)
	_, s.spans, _, _, _ = ref.ParseLog(s.log, s.base)
	s.index = ref.EncodeIndex(ref.DeriveIndex(s.spans, s.cfg), s.ver, s.cfg)
	return s
}

type c07Damage struct {
	kind   string // log damage kind or index damage kind
	log    []byte
	index  []byte // nil = missing
	hasIdx bool
	pos    int
	note   string
}

func xorAt(b []byte, pos int, x byte) []byte {
	c := append([]byte(nil), b...)
	c[pos] ^= x
	return c
}

func setAt(b []byte, pos int, x byte) ([]byte, bool) {
	if b[pos] == x {
		return nil, false
	}
	c := append([]byte(nil), b...)
	c[pos] = x
	return c, true
}

func genC07Damages(s c07Subject, r *Rand, thorough bool) []c07Damage {
	var out []c07Damage
	hdr := len(ref.LogHeader(s.ver))
	addLog := func(kind string, log []byte, pos int) {
		out = append(out, c07Damage{kind: kind, log: log, index: s.index, hasIdx: true, pos: pos})
	}
	// undamaged
	addLog("none", s.log, 0)
	// truncation to every length: 0, and at/after the file header (V1 has no header: its first 8
	// bytes are what version detection reads, so lengths 1..7 are outside the property)
	addLog("truncate", nil, 0)
	for n := 8; n < len(s.log); n++ {
		addLog("truncate", s.log[:n], n)
	}
	if s.ver == ref.V1 {
		return out // V1: truncation only
	}
	for p := hdr; p < len(s.log); p++ {
		addLog("xor01", xorAt(s.log, p, 0x01), p)
		addLog("xor80", xorAt(s.log, p, 0x80), p)
		addLog("xorFF", xorAt(s.log, p, 0xFF), p)
		if c, ok := setAt(s.log, p, 0); ok {
			addLog("set00", c, p)
		}
	}
	// tails
	maxTail := 2 * (ref.V2RecordHeader + ref.V2Trailer + 40)
	stepT := 1
	if !thorough {
		stepT = 3
	}
	for n := 1; n <= maxTail; n += stepT {
		addLog("tail-zero", append(append([]byte(nil), s.log...), make([]byte, n)...), len(s.log))
		addLog("tail-ff", append(append([]byte(nil), s.log...), bytes.Repeat([]byte{0xFF}, n)...), len(s.log))
		addLog("tail-random", append(append([]byte(nil), s.log...), r.Bytes(n)...), len(s.log))
	}
	// a valid record header followed by a short payload, and a fully valid extra record without index entry
	extra := ref.Msg{Offset: s.base + int64(len(s.msgs)), T: baseTime + 500, Key: r.Bytes(5), Value: r.Bytes(20)}
	rec := ref.EncodeRecord(nil, extra, s.ver)
	for n := 1; n < len(rec); n += stepT {
		addLog("tail-half-record", append(append([]byte(nil), s.log...), rec[:n]...), len(s.log))
	}
	addLog("tail-full-record", append(append([]byte(nil), s.log...), rec...), len(s.log))
	// every log damage again with the index file missing (Check: "the index file, if present, ...")
	nLog := len(out)
	for i := 1; i < nLog; i++ {
		d := out[i]
		if strings.HasPrefix(d.kind, "xor") || d.kind == "set00" {
			if i%4 != 0 {
				continue
			}
		}
		d.kind += "+index-missing"
		d.index, d.hasIdx = nil, false
		out = append(out, d)
	}
	// index damages (log clean)
	addIdx := func(kind string, idx []byte, has bool, pos int) {
		out = append(out, c07Damage{kind: kind, log: s.log, index: idx, hasIdx: has, pos: pos})
	}
	addIdx("index-missing", nil, false, 0)
	for n := 0; n < len(s.index); n++ {
		addIdx("index-truncate", s.index[:n], true, n)
	}
	for p := 0; p < len(s.index); p++ {
		addIdx("index-xor01", xorAt(s.index, p, 0x01), true, p)
		addIdx("index-xor80", xorAt(s.index, p, 0x80), true, p)
		addIdx("index-xorFF", xorAt(s.index, p, 0xFF), true, p)
		if c, ok := setAt(s.index, p, 0); ok {
			addIdx("index-set00", c, true, p)
		}
	}
	items := ref.DeriveIndex(s.spans, s.cfg)
	last := items[len(items)-1]
	x1 := ref.Item{Offset: last.Offset + 1, Position: last.Position + 50, Timestamp: last.Timestamp, KeyHash: 7}
	x2 := ref.Item{Offset: last.Offset + 2, Position: last.Position + 100, Timestamp: last.Timestamp + 1, KeyHash: 9}
	addIdx("index-extra-item", ref.EncodeIndex(append(append([]ref.Item(nil), items...), x1), s.ver, s.cfg), true, len(s.index))
	addIdx("index-extra-item", ref.EncodeIndex(append(append([]ref.Item(nil), items...), x1, x2), s.ver, s.cfg), true, len(s.index))
	for _, oc := range allCfgs {
		if oc != s.cfg {
			addIdx("index-other-cfg", ref.EncodeIndex(ref.DeriveIndex(s.spans, oc), s.ver, oc), true, 0)
			addIdx("index-other-cfg-v1form", ref.EncodeIndex(ref.DeriveIndex(s.spans, oc), ref.V1, oc), true, 0)
		}
	}
	addIdx("index-v1form", ref.EncodeIndex(items, ref.V1, s.cfg), true, 0)
	// combined: damaged log AND stale index
	for i := 0; i < 6; i++ {
		p := hdr + r.Intn(len(s.log)-hdr)
		out = append(out, c07Damage{kind: "log+index", log: xorAt(s.log, p, 0xFF), index: s.index[:r.Intn(len(s.index)+1)], hasIdx: true, pos: p})
	}
	return out
}

func runC07(cfg *RunCfg, rep *Reporter, cov *Cov) {
	nSub := 40
	if cfg.Tier == "thorough" {
		nSub = 1200
	}
	nSub = int(float64(nSub) * cfg.Scale)
	if nSub < 4 {
		nSub = 4
	}
	parallel(nSub, cfg.Workers, func(i int) {
		r := NewRand(cfg.Seed, 7, int64(i))
		s := genC07Subject(r, i)
		dmgs := genC07Damages(s, r, cfg.Tier == "thorough")
		cov.Add("subjects", 1)
		dir := filepath.Join(cfg.Scratch, fmt.Sprintf("c07-%d", i))
		defer os.RemoveAll(dir)
		for di, d := range dmgs {
			cov.Add("damage."+d.kind, 1)
			cov.Add("evaluations", 1)
			if f := c07One(s, d, dir, cov, r); f != nil {
				rep.Report(Violation{Property: "C07", Sig: "dmgmon|" + f.Sig, What: f.What,
					Replay: map[string]any{"subject": i, "damage_index": di, "damage": d.kind, "pos": d.pos, "version": s.ver.String(), "cfg": s.cfg.String(), "base": s.base,
						"messages": msgSummaries(s.msgs), "log_len": len(s.log), "damaged_log_len": len(d.log), "damaged_log_hex": fmt.Sprintf("%x", d.log), "index_hex": fmt.Sprintf("%x", d.index), "has_index": d.hasIdx, "seed": cfg.Seed}})
			}
			if di == 7 || di == len(dmgs)/2 {
				cov.Sample(fmt.Sprintf("c07-%s", d.kind), map[string]any{"subject": i, "version": s.ver.String(), "cfg": s.cfg.String(), "messages": len(s.msgs), "damage": d.kind, "pos": d.pos, "log_len": len(s.log)})
			}
		}
	})
}

func writeSeg(dir string, base int64, log, index []byte, hasIdx bool) {
	os.RemoveAll(dir)
	os.MkdirAll(dir, 0o700)
	ln, in := ref.SegName(base)
	os.WriteFile(filepath.Join(dir, ln), log, 0o600)
	if hasIdx {
		os.WriteFile(filepath.Join(dir, in), index, 0o600)
	}
}

// posClass: where in the record structure a log damage position falls
func posClassLog(s c07Subject, pos int) string {
	if pos >= len(s.log) {
		return "after-end"
	}
	for i, sp := range s.spans {
		if pos >= sp.Start && pos < sp.End {
			rel := pos - sp.Start
			which := "mid"
			if i == 0 {
				which = "first"
			}
			if i == len(s.spans)-1 {
				which = "last"
			}
			part := "payload"
			switch {
			case s.ver == ref.V1 && rel < 16:
				part = "offset-time"
			case s.ver == ref.V1 && rel < 24:
				part = "lengths"
			case s.ver == ref.V1 && rel < 28:
				part = "crc"
			case s.ver == ref.V1:
			case rel < 4:
				part = "crc"
			case rel < 20:
				part = "offset-time"
			case rel < 28:
				part = "lengths"
			case pos >= sp.End-8:
				part = "trailer"
			}
			if pos == sp.Start {
				part = "record-boundary"
			}
			return which + ":" + part
		}
	}
	return "header"
}

func c07One(s c07Subject, d c07Damage, dir string, cov *Cov, r *Rand) *Fail {
	opts := OpenOpts{KeyIndex: s.cfg.Keys, TimeIdx: s.cfg.Times, Rollover: 1 << 20}
	ko := opts.K()
	ln, in := ref.SegName(s.base)
	lpath, ipath := filepath.Join(dir, ln), filepath.Join(dir, in)
	// what the reference says about the damaged bytes
	_, spans, end, clean, hdrOK := ref.ParseLog(d.log, s.base)
	if !hdrOK {
		return nil // outside the quantifier (file header damaged)
	}
	wantPrefix := d.log[:end]
	if len(d.log) == 0 {
		wantPrefix = nil
	}
	derived := ref.DeriveIndex(spans, s.cfg)
	idxMatches := true
	if d.hasIdx {
		_, items, err := ref.DecodeIndex(d.index, s.base, s.cfg)
		if err != nil {
			idxMatches = false
		} else if ok, _ := ref.ItemsEqual(items, derived, true); !ok {
			idxMatches = false
		}
	}
	wantCheck := clean && idxMatches
	verdict := fmt.Sprintf("clean=%v idx=%v", clean, idxMatches)
	pc := posClassLog(s, d.pos)
	if strings.HasPrefix(d.kind, "index") {
		pc = "index"
	}
	cov.Distinct("dmg", fmt.Sprintf("%s|%s|%s|%s|%s", s.ver, s.cfg, d.kind, pc, verdict))
	sigTail := fmt.Sprintf("%s:%s:%s", s.ver, d.kind, pc)

	// ---- Check (package level and Open(Check))
	writeSeg(dir, s.base, d.log, d.index, d.hasIdx)
	cerr := guard(func() error { return klevdb.Check(dir, ko) })
	if isPanic(cerr) {
		return &Fail{Sig: "check:panic:" + panicFrame(cerr), What: fmt.Sprintf("Check panicked: %v", cerr)}
	}
	if (cerr == nil) != wantCheck {
		if cerr == nil {
			return failf("check:accepts-damaged:"+sigTail, "Check succeeded although %s (log %d bytes, valid prefix %d bytes, index matches=%v)", verdict, len(d.log), end, idxMatches)
		}
		return failf("check:rejects-clean:"+sigTail, "Check failed (%s) although the log parses completely and the index matches", errText(cerr))
	}
	if r.Chance(0.25) {
		oc := opts
		oc.Check = true
		l, oerr := kOpen(dir, oc)
		if oerr == nil {
			kClose(l)
		}
		if isPanic(oerr) {
			return &Fail{Sig: "open-check:panic:" + panicFrame(oerr), What: fmt.Sprintf("Open(Check) panicked: %v", oerr)}
		}
		if wantCheck && oerr != nil {
			return failf("open-check:rejects-clean:"+sigTail, "Open(Check) failed on a clean segment: %s", errText(oerr))
		}
		if !wantCheck && oerr == nil {
			return failf("open-check:accepts-damaged:"+sigTail, "Open(Check) succeeded although %s", verdict)
		}
		writeSeg(dir, s.base, d.log, d.index, d.hasIdx)
	}
	// ---- Recover (package level; Open(Recover) on a sample)
	viaOpen := r.Chance(0.25)
	var rerr error
	if viaOpen {
		or := opts
		or.Recover = true
		var l klevdb.Log
		l, rerr = kOpen(dir, or)
		if rerr == nil {
			kClose(l)
		}
	} else {
		rerr = guard(func() error { return klevdb.Recover(dir, ko) })
	}
	how := map[bool]string{true: "open-recover", false: "recover"}[viaOpen]
	if isPanic(rerr) {
		return &Fail{Sig: how + ":panic:" + panicFrame(rerr), What: fmt.Sprintf("Recover panicked: %v", rerr)}
	}
	if rerr != nil {
		return failf(how+":error:"+errClass(rerr)+":"+sigTail, "Recover failed on a head segment with an intact file header: %s", errText(rerr))
	}
	gotLog, _ := os.ReadFile(lpath)
	gotIdx, ierr := os.ReadFile(ipath)
	if viaOpen && len(spans) == 0 && (len(gotLog) == 0 || bytes.Equal(gotLog, ref.LogHeader(ref.V2))) {
		// nothing valid was left: Open then starts the empty head in NewSegmentsVersion (a bare file header)
		gotLog = wantPrefix
	}
	if !bytes.Equal(gotLog, wantPrefix) {
		_, gs, _, _, _ := ref.ParseLog(gotLog, s.base)
		return failf(how+":log-not-valid-prefix:"+sigTail, "after Recover the log has %d bytes (%d valid records), the longest valid prefix of the damaged file is %d bytes (%d records)", len(gotLog), len(gs), len(wantPrefix), len(spans))
	}
	if ierr == nil {
		_, items, err := ref.DecodeIndex(gotIdx, s.base, s.cfg)
		if err != nil {
			if !viaOpen { // Open rebuilds, package Recover must leave it decodable
				return failf(how+":index-undecodable:"+sigTail, "after Recover the index does not decode: %v", err)
			}
		} else if ok, why := ref.ItemsEqual(items, derived, true); !ok {
			return failf(how+":index-mismatch:"+sigTail, "after Recover the index differs from the index derived from the kept prefix: %s", why)
		}
	}
	if wantCheck && !viaOpen {
		// byte-for-byte no-op on an undamaged segment
		if d.hasIdx && !bytes.Equal(gotIdx, d.index) {
			return failf(how+":not-noop-index:"+sigTail, "Recover changed the index of an undamaged segment")
		}
	}
	ents, _ := os.ReadDir(dir)
	for _, e := range ents {
		if n := e.Name(); n != ln && n != in && n != ".lock" {
			return failf(how+":leftover-file:"+sigTail, "Recover left %s behind", n)
		}
	}
	cov.Add("outcome.recovered", 1)
	// ---- after Recover: Check ok, append, Check still ok, scan == prefix + new
	if err := guard(func() error { return klevdb.Check(dir, ko) }); err != nil {
		return failf("check-after-recover:"+errClass(err)+":"+sigTail, "Check fails after Recover: %s", errText(err))
	}
	l, err := kOpen(dir, opts)
	if err != nil {
		return failf("open-after-recover:"+errClass(err)+":"+sigTail, "Open fails after Recover: %s", errText(err))
	}
	kept := ref.Msgs(spans)
	model := &ref.Model{Cfg: s.cfg, Live: append([]ref.Msg(nil), kept...)}
	model.Next = s.base
	if len(kept) > 0 {
		model.Next = kept[len(kept)-1].Offset + 1
	}
	np := 1 + r.Intn(3)
	var pub []klevdb.Message
	for i := 0; i < np; i++ {
		pub = append(pub, klevdb.Message{Time: fromRef(ref.Msg{T: baseTime + 1000 + int64(i)}).Time, Key: r.Bytes(3), Value: r.Bytes(10)})
	}
	if _, err := kPublish(l, pub); err != nil {
		kClose(l)
		return failf("publish-after-recover:"+errClass(err)+":"+sigTail, "Publish fails after Recover: %s", errText(err))
	}
	for i := range pub {
		m := toRef(pub[i])
		m.Offset = model.Next
		model.Live = append(model.Live, m)
		model.Next++
	}
	got, _, f := scanLog(l, 4, 64)
	if f == nil {
		f = compareSeq(got, model.Live)
	}
	kClose(l)
	if f != nil {
		f.Sig = "scan-after-recover:" + f.Sig + ":" + sigTail
		f.What = "after Recover and an append: " + f.What
		return f
	}
	if err := guard(func() error { return klevdb.Check(dir, ko) }); err != nil {
		return failf("check-after-append:"+errClass(err)+":"+sigTail, "Check fails after Recover + append: %s", errText(err))
	}
	// the appended file must parse completely with the reference parser as well
	fin, _ := os.ReadFile(lpath)
	if _, sp, _, cl, _ := ref.ParseLog(fin, s.base); !cl || len(sp) != len(model.Live) {
		return failf("append-after-recover:unparseable:"+sigTail, "after Recover + append the log does not parse completely (%d of %d records)", len(sp), len(model.Live))
	}
	return nil
}

// ---------------------------------------------------------------------------------------
// C14

type c14Subject struct {
	emptyHead bool
	cfg       ref.IndexCfg
	segs      []c14Seg
	msgs      []ref.Msg
	keys      [][]byte
	model     *ref.Model
	calls     []readCall
	base      []callResult
}

type c14Seg struct {
	base  int64
	log   []byte
	index []byte
	spans []ref.Span
}

type readCall struct {
	kind string
	off  int64
	max  int64
	key  []byte
	t    int64
}

func (c readCall) String() string {
	switch c.kind {
	case "Consume":
		return fmt.Sprintf("Consume(%d,%d)", c.off, c.max)
	case "Get":
		return fmt.Sprintf("Get(%d)", c.off)
	case "GetByKey":
		return fmt.Sprintf("GetByKey(%s)", keyName(c.key))
	case "GetByTime":
		return fmt.Sprintf("GetByTime(%d)", c.t)
	case "ConsumeByKey":
		return fmt.Sprintf("ConsumeByKey(%s,%d,%d)", keyName(c.key), c.off, c.max)
	}
	return c.kind
}

type callResult struct {
	msgs  []ref.Msg
	next  int64
	err   string
	errTx string
	panic string
	alloc uint64
}

func (a callResult) same(b callResult) bool {
	if a.err != b.err || a.next != b.next || len(a.msgs) != len(b.msgs) {
		return false
	}
	for i := range a.msgs {
		if !a.msgs[i].Equal(b.msgs[i]) {
			return false
		}
	}
	return true
}

func doCall(l klevdb.Log, c readCall) callResult {
	var r callResult
	var err error
	switch c.kind {
	case "Consume":
		var ms []klevdb.Message
		r.next, ms, err = kConsume(l, c.off, c.max)
		r.msgs = toRefs(ms)
	case "Get":
		var m klevdb.Message
		m, err = kGet(l, c.off)
		if err == nil {
			r.msgs = []ref.Msg{toRef(m)}
		}
	case "GetByKey":
		var m klevdb.Message
		m, err = kGetByKey(l, c.key)
		if err == nil {
			r.msgs = []ref.Msg{toRef(m)}
		}
	case "GetByTime":
		var m klevdb.Message
		m, err = kGetByTime(l, c.t)
		if err == nil {
			r.msgs = []ref.Msg{toRef(m)}
		}
	case "ConsumeByKey":
		var ms []klevdb.Message
		r.next, ms, err = kConsumeByKey(l, c.key, c.off, c.max)
		r.msgs = toRefs(ms)
	}
	if err != nil {
		r.msgs, r.next = nil, 0
		r.err = errClass(err)
		r.errTx = errText(err)
		if isPanic(err) {
			r.panic = panicFrame(err)
		}
	}
	return r
}

func genC14Subject(r *Rand, i int) *c14Subject {
	s := &c14Subject{cfg: ref.IndexCfg{Times: true, Keys: true}}
	if i%3 == 1 {
		s.cfg = ref.IndexCfg{Keys: true}
	}
	s.keys = [][]byte{[]byte("ka"), []byte("kb"), nil, []byte(collisionPairs[0][0]), []byte(collisionPairs[0][1])}
	off := int64(0)
	if r.Bool() {
		off = int64(3 + r.Intn(5))
	}
	t := baseTime
	for si := 0; si < 4; si++ {
		n := 2 + r.Intn(3)
		seg := c14Seg{base: off}
		var ms []ref.Msg
		for j := 0; j < n; j++ {
			m := ref.Msg{Offset: off, T: t, Key: pick(r, s.keys)}
			if vl := r.Intn(30); vl > 0 {
				m.Value = r.Bytes(vl)
			}
			if si == 1 && j == 1 {
				m.Key, m.Value = nil, nil // a record that is nothing but its header and trailer
			}
			t += int64(r.Intn(3))
			off++
			if r.Chance(0.2) {
				off++ // a hole
			}
			ms = append(ms, m)
		}
		seg.log = ref.EncodeLog(ms, ref.V2)
		_, seg.spans, _, _, _ = ref.ParseLog(seg.log, seg.base)
		seg.index = ref.EncodeIndex(ref.DeriveIndex(seg.spans, s.cfg), ref.V2, s.cfg)
		s.segs = append(s.segs, seg)
		s.msgs = append(s.msgs, ms...)
	}
	s.model = &ref.Model{Cfg: s.cfg, Live: s.msgs, Next: s.msgs[len(s.msgs)-1].Offset + 1}
	if i%4 == 2 {
		// an empty head segment (what deleting the head's last or all messages leaves): the newest
		// message then lives in a segment that Open has no reason to read
		if r.Bool() {
			off += int64(1 + r.Intn(2)) // the deleted tail
		}
		seg := c14Seg{base: off, log: ref.EncodeLog(nil, ref.V2)}
		seg.index = ref.EncodeIndex(nil, ref.V2, s.cfg)
		s.segs = append(s.segs, seg)
		s.model.Next = off
		s.emptyHead = true
	}
	// the call list
	for o := int64(-2); o <= s.model.Next+1; o++ {
		for _, mx := range []int64{1, 3, 40} {
			s.calls = append(s.calls, readCall{kind: "Consume", off: o, max: mx})
		}
		s.calls = append(s.calls, readCall{kind: "Get", off: o})
	}
	keys := append(append([][]byte(nil), s.keys...), []byte("absent"))
	for _, k := range keys {
		s.calls = append(s.calls, readCall{kind: "GetByKey", key: k})
		for _, o := range []int64{-2, s.segs[1].base, s.segs[3].base} {
			s.calls = append(s.calls, readCall{kind: "ConsumeByKey", key: k, off: o, max: 2}, readCall{kind: "ConsumeByKey", key: k, off: o, max: 40})
		}
	}
	if s.cfg.Times {
		for _, tt := range timeSweep(s.model, 60) {
			s.calls = append(s.calls, readCall{kind: "GetByTime", t: tt})
		}
	}
	return s
}

func (s *c14Subject) write(dir string, dseg int, dlog []byte) {
	os.RemoveAll(dir)
	os.MkdirAll(dir, 0o700)
	for i, seg := range s.segs {
		ln, in := ref.SegName(seg.base)
		lg := seg.log
		if i == dseg {
			lg = dlog
		}
		os.WriteFile(filepath.Join(dir, ln), lg, 0o600)
		os.WriteFile(filepath.Join(dir, in), seg.index, 0o600)
	}
}

func (s *c14Subject) bases() []int64 {
	var out []int64
	for _, seg := range s.segs {
		out = append(out, seg.base)
	}
	return out
}

func (s *c14Subject) segOf(off int64) int {
	if off < 0 {
		if off == klevdb.OffsetNewest {
			return len(s.segs) - 1
		}
		return 0
	}
	i := sort.Search(len(s.segs), func(i int) bool { return s.segs[i].base > off }) - 1
	if i < 0 {
		i = 0
	}
	return i
}

// involved: the segment files a call may read, given its baseline answer (sound over-approximation).
func (s *c14Subject) involved(c readCall, b callResult) (lo, hi int) {
	last := len(s.segs) - 1
	switch c.kind {
	case "Get":
		if c.off == klevdb.OffsetNewest {
			return 0, last // may walk back from an empty head
		}
		i := s.segOf(c.off)
		return i, i
	case "Consume":
		i := s.segOf(c.off)
		return i, minInt(i+1, last)
	case "GetByKey":
		if len(b.msgs) == 1 {
			return s.segOf(b.msgs[0].Offset), last
		}
		return 0, last
	case "GetByTime":
		if len(b.msgs) == 1 {
			// the walk passes through newer segments on their index alone; log files are read of the
			// segment holding the answer and, when the answer is the first message of its segment
			// (reached by the hand-over from the previous one, or a run of equal times), its neighbours
			i := s.segOf(b.msgs[0].Offset)
			hi := minInt(i+1, last)
			// a run of equal times: the walk goes from the newest segment down and reads the first
			// message of every segment whose index starts exactly at the query time before it moves on
			// to the older one
			for j := i + 1; j <= last; j++ {
				if len(s.segs[j].spans) == 0 || s.segs[j].spans[0].Msg.T != c.t {
					break
				}
				hi = maxInt(hi, j)
			}
			return maxInt(i-1, 0), hi
		}
		return 0, last
	case "ConsumeByKey":
		i := s.segOf(c.off)
		if len(b.msgs) > 0 {
			return i, s.segOf(b.msgs[len(b.msgs)-1].Offset)
		}
		return i, last
	}
	return 0, last
}

type c14Damage struct {
	seg        int
	kind       string
	log        []byte
	from, to   int // damaged byte range [from,to) in the original file coordinates (overwrite kinds)
	overwrite  bool
	lengthFlip bool
}

func genC14Damages(s *c14Subject, r *Rand, thorough bool) []c14Damage {
	var out []c14Damage
	for si, seg := range s.segs {
		if len(seg.spans) == 0 {
			continue // the empty head holds no record that could be overwritten
		}
		L := len(seg.log)
		// single-bit flips: every bit (thorough) or 3 bits per byte
		for p := 0; p < L; p++ {
			bits := []int{0, 3, 7}
			if thorough {
				bits = []int{0, 1, 2, 3, 4, 5, 6, 7}
			}
			inLen := false
			for _, sp := range seg.spans {
				if p >= sp.Start+20 && p < sp.Start+28 {
					inLen = true
				}
			}
			if inLen {
				bits = []int{0, 1, 2, 3, 4, 5, 6, 7}
			}
			for _, b := range bits {
				out = append(out, c14Damage{seg: si, kind: "bitflip", log: xorAt(seg.log, p, 1<<b), from: p, to: p + 1, overwrite: true, lengthFlip: inLen})
			}
		}
		// 1-8 byte overwrites at every position
		widths := []int{1, 2, 4, 8}
		if thorough {
			widths = []int{1, 2, 3, 4, 5, 6, 7, 8}
		}
		for p := 0; p < L; p++ {
			w := widths[p%len(widths)]
			if thorough {
				w = widths[r.Intn(len(widths))]
			}
			if p+w > L {
				w = L - p
			}
			for _, pat := range []string{"zeros", "ff", "random", "neighbour"} {
				c := append([]byte(nil), seg.log...)
				switch pat {
				case "zeros":
					for i := 0; i < w; i++ {
						c[p+i] = 0
					}
				case "ff":
					for i := 0; i < w; i++ {
						c[p+i] = 0xFF
					}
				case "random":
					copy(c[p:p+w], r.Bytes(w))
				case "neighbour":
					src := p - w
					if src < 0 {
						src = p + w
					}
					if src+w > L {
						continue
					}
					copy(c[p:p+w], seg.log[src:src+w])
				}
				if bytes.Equal(c, seg.log) {
					continue
				}
				// the damaged range is where bytes actually differ
				f, t := p, p+w
				for f < t && c[f] == seg.log[f] {
					f++
				}
				for t > f && c[t-1] == seg.log[t-1] {
					t--
				}
				out = append(out, c14Damage{seg: si, kind: "overwrite-" + pat, log: c, from: f, to: t, overwrite: true})
			}
		}
		// crafted: both length fields large and positive so that their sum no longer fits 31 bits
		for _, sp := range seg.spans {
			for _, hi := range [][2]byte{{0x40, 0x40}, {0x7f, 0x7f}, {0x7f, 0x01}} {
				c := append([]byte(nil), seg.log...)
				c[sp.Start+20], c[sp.Start+24] = hi[0], hi[1]
				out = append(out, c14Damage{seg: si, kind: "overwrite-lengths-crafted", log: c, from: sp.Start + 20, to: sp.Start + 25, overwrite: true, lengthFlip: true})
			}
		}
		// the whole file (or everything from a record boundary on) filled with zeros, length kept
		for _, p := range append([]int{0, ref.FileHeaderSize}, func() []int {
			var b []int
			for _, sp := range seg.spans[1:] {
				b = append(b, sp.Start)
			}
			return b
		}()...) {
			c := append([]byte(nil), seg.log...)
			for i := p; i < L; i++ {
				c[i] = 0
			}
			out = append(out, c14Damage{seg: si, kind: "zero-fill-to-end", log: c, from: p, to: L, overwrite: true})
		}
		// truncation to every length
		for n := 0; n < L; n++ {
			out = append(out, c14Damage{seg: si, kind: "truncate", log: seg.log[:n], from: n, to: L})
		}
		// zero-filled tail extension
		for _, n := range []int{1, 7, 27, 28, 36, 64, 4096} {
			out = append(out, c14Damage{seg: si, kind: "zero-tail", log: append(append([]byte(nil), seg.log...), make([]byte, n)...), from: L, to: L + n})
		}
	}
	return out
}

func c14PosClass(seg c14Seg, d c14Damage) string {
	if d.from < ref.FileHeaderSize {
		return "file-header"
	}
	for _, sp := range seg.spans {
		if d.from >= sp.Start && d.from < sp.End {
			rel := d.from - sp.Start
			switch {
			case d.kind == "truncate" && rel == 0:
				return "record-boundary"
			case rel < 4:
				return "crc"
			case rel < 20:
				return "offset-time"
			case rel < 28:
				return "lengths"
			case d.from >= sp.End-8:
				return "trailer"
			}
			return "payload"
		}
	}
	return "after-end"
}

const c14AllocBound = 64<<20 + 1<<20

func runC14(cfg *RunCfg, rep *Reporter, cov *Cov) {
	nSub := 6
	if cfg.Tier == "thorough" {
		nSub = 120
	}
	nSub = int(float64(nSub) * cfg.Scale)
	if nSub < 2 {
		nSub = 2
	}
	subjects := make([]*c14Subject, nSub)
	damages := make([][]c14Damage, nSub)
	type job struct{ s, d int }
	var jobs []job
	for i := range subjects {
		r := NewRand(cfg.Seed, 14, int64(i))
		s := genC14Subject(r, i)
		// baseline on the clean copy
		dir := filepath.Join(cfg.Scratch, fmt.Sprintf("c14-base-%d", i))
		s.write(dir, -1, nil)
		l, err := kOpen(dir, OpenOpts{KeyIndex: s.cfg.Keys, TimeIdx: s.cfg.Times})
		if err != nil {
			rep.Inconclusive("clean C14 subject does not open: " + errText(err))
			continue
		}
		selfOK := true
		for _, c := range s.calls {
			b := doCall(l, c)
			s.base = append(s.base, b)
			for _, m := range b.msgs {
				if w, ok := s.model.Get(m.Offset); !ok || !w.Equal(m) {
					selfOK = false
				}
			}
		}
		kClose(l)
		os.RemoveAll(dir)
		if !selfOK {
			rep.Inconclusive("clean C14 subject answers differ from the model (reference codec / klevdb disagreement; see C13)")
			continue
		}
		cov.Add("selfcheck.ok", 1)
		subjects[i] = s
		damages[i] = genC14Damages(s, r, cfg.Tier == "thorough")
		for d := range damages[i] {
			jobs = append(jobs, job{i, d})
		}
		cov.Add("subjects", 1)
	}
	// pass 1 (sequential, nothing else running): allocation measurement for damages of length fields
	var ms runtime.MemStats
	allocViol := 0
	stuckPaused.Store(true) // nothing else allocates in this process during the measurements
	for _, j := range jobs {
		s, d := subjects[j.s], damages[j.s][j.d]
		if !d.lengthFlip || j.s >= 3 || allocViol >= 3 {
			continue
		}
		dir := filepath.Join(cfg.Scratch, "c14-alloc")
		s.write(dir, d.seg, d.log)
		l, err := kOpen(dir, OpenOpts{KeyIndex: s.cfg.Keys, TimeIdx: s.cfg.Times})
		if err != nil {
			continue
		}
		fileSize := uint64(len(d.log))
		for ci, c := range s.calls {
			if lo, hi := s.involved(c, s.base[ci]); d.seg < lo || d.seg > hi {
				continue
			}
			runtime.ReadMemStats(&ms)
			before := ms.TotalAlloc
			doCall(l, c)
			runtime.ReadMemStats(&ms)
			cov.Add("evaluations", 1)
			cov.Add("outcome.alloc-measured", 1)
			if ms.TotalAlloc-before > 256<<20 {
				debug.FreeOSMemory()
			}
			if delta := ms.TotalAlloc - before; delta > c14AllocBound+64*fileSize {
				allocViol++
				rep.Report(Violation{Property: "C14", Sig: "dmgmon|alloc:" + c.kind, What: fmt.Sprintf("%s allocated %d bytes on a %d-byte file with a damaged length field (bound 64 MiB + 64 x file + 1 MiB)", c, delta, fileSize),
					Replay: map[string]any{"subject": j.s, "damage": d.kind, "from": d.from, "segment": d.seg, "seed": cfg.Seed}})
				break
			}
		}
		kClose(l)
		os.RemoveAll(dir)
	}
	stuckPaused.Store(false)
	// pass 2 (parallel): behaviour
	parallel(len(jobs), cfg.Workers, func(k int) {
		j := jobs[k]
		s, d := subjects[j.s], damages[j.s][j.d]
		dir := filepath.Join(cfg.Scratch, fmt.Sprintf("c14-%d", k))
		defer os.RemoveAll(dir)
		cov.Add("damage."+d.kind, 1)
		if (d.kind == "overwrite-lengths-crafted" || d.lengthFlip) && allocViol > 0 {
			return // the sequential pass already showed the allocation; 16 workers allocating GiBs would only kill the run
		}
		c14One(cfg, rep, cov, s, j.s, d, dir, false)
		if d.overwrite && len(d.log) == len(s.segs[d.seg].log) && k%5 == 2 {
			// the same damage applied in place to the OPEN log, after every call has been made once
			c14One(cfg, rep, cov, s, j.s, d, dir, true)
		}
		if k%5003 == 0 {
			cov.Sample("c14-"+d.kind, map[string]any{"subject": j.s, "segment": d.seg, "damage": d.kind, "from": d.from, "to": d.to, "pos_class": c14PosClass(s.segs[d.seg], d), "calls": len(s.calls)})
		}
	})
}

func c14One(cfg *RunCfg, rep *Reporter, cov *Cov, s *c14Subject, si int, d c14Damage, dir string, live bool) {
	seg := s.segs[d.seg]
	pc := c14PosClass(seg, d)
	role := "middle"
	switch {
	case d.seg == len(s.segs)-1:
		role = "head"
	case d.seg == 0:
		role = "oldest"
	case s.emptyHead && d.seg == len(s.segs)-2:
		role = "newest-before-empty-head"
	}
	// state predicate of a known format weakness: V1 files carry no magic, they are recognised by their
	// first 8 bytes equalling the base offset - a log of the base-0 segment whose beginning is zero
	// filled therefore reads as a V1 file of empty records (offset 0, time 0, CRC of nothing = 0)
	v1Misparse := seg.base == 0 && d.from == 0 && len(d.log) >= 8 && bytes.Equal(d.log[:8], make([]byte, 8))
	report := func(sig, what string, c *readCall) {
		if v1Misparse {
			sig = "v1-misparse(zero-filled log of the base-0 segment)"
		}
		rp := map[string]any{"subject": si, "segment": d.seg, "damage": d.kind, "from": d.from, "to": d.to, "pos_class": pc, "seed": cfg.Seed,
			"segment_bases": s.bases(), "empty_head": s.emptyHead, "damaged_log_hex": fmt.Sprintf("%x", d.log), "messages": msgSummaries(s.msgs), "cfg": s.cfg.String()}
		if c != nil {
			rp["call"] = c.String()
		}
		rep.Report(Violation{Property: "C14", Sig: "dmgmon|" + sig, What: what, Replay: rp})
	}
	if live {
		s.write(dir, -1, nil)
	} else {
		s.write(dir, d.seg, d.log)
	}
	l, err := kOpen(dir, OpenOpts{KeyIndex: s.cfg.Keys, TimeIdx: s.cfg.Times})
	cov.Add("evaluations", 1)
	if live {
		if err != nil {
			return
		}
		// every call once on the clean log (whatever the readers cache or remember is now in place),
		// then the bytes are overwritten in the file the log has open (same inode, pwrite)
		for _, c := range s.calls {
			doCall(l, c)
		}
		ln, _ := ref.SegName(seg.base)
		f, ferr := os.OpenFile(filepath.Join(dir, ln), os.O_WRONLY, 0)
		if ferr != nil {
			kClose(l)
			return
		}
		_, werr := f.WriteAt(d.log[d.from:d.to], int64(d.from))
		f.Close()
		if werr != nil {
			kClose(l)
			return
		}
		cov.Add("outcome.damaged-while-open", 1)
		role += "(open)"
	}
	if err != nil {
		if isPanic(err) {
			report("open:panic:"+panicFrame(err), fmt.Sprintf("Open panicked on a damaged directory: %v", err), nil)
			return
		}
		if d.overwrite && d.seg != len(s.segs)-1 {
			// Open with default options reads the head segment only: every call answered from the
			// undamaged files must still be possible
			report(fmt.Sprintf("open-fails:%s:%s:%s", role, d.kind, errClass(err)), fmt.Sprintf("reopen with default options failed (%s) after %s at [%d,%d) of the %s segment, a file that Open does not need: no call answered from the other segment files can be made", errText(err), d.kind, d.from, d.to, role), nil)
			return
		}
		cov.Add("outcome.open-fails", 1)
		cov.Distinct("dmg", fmt.Sprintf("%s|%s|%s|Open|fails", role, d.kind, pc))
		return
	}
	closed := false
	defer func() {
		if !closed {
			kClose(l)
		}
	}()
	// after the calls: a refused read must not leave anything behind - Close succeeds and releases the
	// directory, so that the reopen (which the calls answered from other files depend on) is possible
	defer func() {
		if closed || !d.overwrite {
			return
		}
		closed = true
		if err := kClose(l); err != nil {
			report("close-fails-after-reads:"+errClass(err), fmt.Sprintf("Close failed (%s) after read calls on a log with %s at [%d,%d) of the %s segment", errText(err), d.kind, d.from, d.to, role), nil)
			return
		}
		if d.seg != len(s.segs)-1 {
			l2, err := kOpen(dir, OpenOpts{KeyIndex: s.cfg.Keys, TimeIdx: s.cfg.Times})
			if err != nil {
				report("reopen-fails-after-reads:"+errClass(err), fmt.Sprintf("the directory cannot be opened again (%s) after read calls on a log with %s of the %s segment were refused and the log was closed", errText(err), d.kind, role), nil)
				return
			}
			kClose(l2)
		}
	}()
	// records overlapping the damaged range
	R := map[int64]bool{}
	if d.overwrite && d.from >= ref.FileHeaderSize {
		for _, sp := range seg.spans {
			if d.from < sp.End && d.to > sp.Start {
				R[sp.Msg.Offset] = true
			}
		}
	}
	for ci, c := range s.calls {
		b := s.base[ci]
		g := doCall(l, c)
		cov.Add("evaluations", 1)
		if g.panic != "" {
			report(fmt.Sprintf("panic:%s:%s:%s:%s", c.kind, g.panic, d.kind, pc), fmt.Sprintf("%s panicked (%s) on a log with %s at [%d,%d) of the %s segment", c, g.errTx, d.kind, d.from, d.to, role), &c)
			return
		}
		// never a message that differs from the published one
		for _, m := range g.msgs {
			if w, ok := s.model.Get(m.Offset); !ok || !w.Equal(m) {
				report(fmt.Sprintf("wrong-data:%s:%s:%s", c.kind, d.kind, pc), fmt.Sprintf("%s returned %v, the message published at that offset is %v (damage %s at [%d,%d) of the %s segment)", c, m, w, d.kind, d.from, d.to, role), &c)
				return
			}
		}
		verdict := "c-baseline"
		if g.err != "" {
			verdict = "c-error"
		}
		if d.overwrite {
			hit := false
			for _, m := range b.msgs {
				if R[m.Offset] {
					hit = true
				}
			}
			lo, hi := s.involved(c, b)
			switch {
			case d.from < ref.FileHeaderSize && !(d.seg < lo || d.seg > hi):
				// damage of the file header: no record is overwritten; calls that read this file may
				// fail or not, only wrong data (checked above) is ruled out
			case hit:
				verdict = "a-must-fail"
				if g.err == "" {
					report(fmt.Sprintf("damaged-record-served:%s:%s:%s", c.kind, d.kind, pc), fmt.Sprintf("%s succeeded although its answer includes a record overwritten by %s at [%d,%d) of the %s segment", c, d.kind, d.from, d.to, role), &c)
					return
				}
			case d.seg < lo || d.seg > hi:
				verdict = "b-unrelated"
				if !g.same(b) {
					report(fmt.Sprintf("unrelated-call-changed:%s:%s:%s", c.kind, d.kind, role), fmt.Sprintf("%s is answered from other segment files but changed after %s of the %s segment: baseline (%d msgs, next=%d, err=%s) now (%d msgs, next=%d, err=%s %s)", c, d.kind, role, len(b.msgs), b.next, b.err, len(g.msgs), g.next, g.err, g.errTx), &c)
					return
				}
			default:
				if g.err == "" && !g.same(b) {
					report(fmt.Sprintf("changed-answer:%s:%s:%s", c.kind, d.kind, pc), fmt.Sprintf("%s neither failed nor returned its baseline answer after %s at [%d,%d) of the %s segment: baseline (%d msgs, next=%d) now (%d msgs, next=%d)", c, d.kind, d.from, d.to, role, len(b.msgs), b.next, len(g.msgs), g.next), &c)
					return
				}
			}
		}
		cov.Add("outcome."+verdict, 1)
		if verdict != "c-baseline" || ci%17 == 0 {
			cov.Distinct("dmg", fmt.Sprintf("%s|%s|%s|%s|%s", role, d.kind, pc, c.kind, verdict))
		}
	}
}
