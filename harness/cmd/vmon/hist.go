package main

import (
	"context"
	"errors"
	"fmt"
	"os"
	"path/filepath"
	"sync"
	"time"

	"github.com/klev-dev/klevdb"

	"verifharness/ref"
)

// Hist is one sequential history: a real log directory, its handle and the reference model.
type Hist struct {
	id           string
	prop         string
	dir          string
	scratch      string
	cfg          ref.IndexCfg
	opts         OpenOpts
	log          klevdb.Log
	model        *ref.Model
	ops          []Op
	everNonDec   bool
	spell        string // how the directory is spelled towards klevdb (see path)
	everPreEpoch bool   // a message with a time before 1970-01-01 was published
	lastPubT     int64
	havePub      bool
	gen          *GenState
	cov          *Cov
	rep          *Reporter
	tier         string
	seed         int64
	idx          int
	failed       bool
	aborted      string
	copyN        int
	sizeOracle   bool
	bkObs        []string // observation of the last backup, taken right after the call
	bkOO         ObsOpts
	bkOpts       OpenOpts
	segVer       map[int64]ref.Version // C17: version each existing segment is expected to have (by base)
}

type OpResult struct {
	Err      error
	Stage    string
	Next     int64
	Pub      []ref.Msg
	Deleted  []ref.Msg          // messages reported deleted (when the API returns messages)
	DelOffs  map[int64]struct{} // offsets reported deleted
	Size     int64
	Found    map[int64]struct{} // result of the Find* helper (called before the mutating variant)
	FoundErr error
	HaveMsgs bool
	Stopped  bool // the multi-pass driver was stopped by its backoff: the result is the partial one
	ClosedEr []error
}

// A multi-pass call whose context is cancelled while it runs: op.CancelAt = -1 cancels before the
// call, k > 0 inside the k-th invocation of the backoff (which itself ignores the context and
// returns nil, as a caller's own backoff may). The drivers do not look at the context themselves:
// whatever they executed must be in what they return.
type opCancel struct {
	ctx     context.Context
	backoff func(context.Context) error
}

var opCancels = map[*Op]*opCancel{}
var opCancelsMu sync.Mutex

func ctxFor(op *Op) (context.Context, func()) {
	if op.CancelAt == 0 {
		return context.Background(), func() {}
	}
	ctx, cancel := context.WithCancel(context.Background())
	calls := 0
	oc := &opCancel{ctx: ctx, backoff: func(context.Context) error {
		calls++
		if calls == op.CancelAt {
			cancel()
		}
		return nil
	}}
	if op.CancelAt < 0 {
		cancel()
	}
	opCancelsMu.Lock()
	opCancels[op] = oc
	opCancelsMu.Unlock()
	return ctx, func() {
		cancel()
		opCancelsMu.Lock()
		delete(opCancels, op)
		opCancelsMu.Unlock()
	}
}

var tooBigOnce sync.Once
var tooBigBuf []byte

// tooBigValue: one byte more than the 64 MiB bound of the record format (shared, never written to).
func tooBigValue() []byte {
	tooBigOnce.Do(func() { tooBigBuf = make([]byte, 64*1024*1024+1) })
	return tooBigBuf
}

var noBackoff = func(context.Context) error { return nil }

// errStopBackoff is what a stopping backoff returns: the multi-pass drivers must hand back what they
// deleted so far together with it.
var errStopBackoff = errors.New("verif: backoff stops the multi-pass delete")

// backoffFor returns the backoff of a multi-pass call: it fails on its op.StopAfter-th invocation.
func backoffFor(op *Op) func(context.Context) error {
	if op.CancelAt != 0 {
		// handled by ctxFor: this backoff only counts
		opCancelsMu.Lock()
		defer opCancelsMu.Unlock()
		return opCancels[op].backoff
	}
	if op.StopAfter == 0 {
		return noBackoff
	}
	calls := 0
	return func(context.Context) error {
		calls++
		if calls == op.StopAfter {
			return errStopBackoff
		}
		return nil
	}
}

func offsetSet(offs []int64) map[int64]struct{} {
	s := make(map[int64]struct{}, len(offs))
	for _, o := range offs {
		s[o] = struct{}{}
	}
	return s
}

func (h *Hist) tmpDir(tag string) string {
	h.copyN++
	d := filepath.Join(h.scratch, fmt.Sprintf("%s-%s-%d", h.id, tag, h.copyN))
	return d
}

// exec runs one op against the real log. It never touches the model.
func (h *Hist) exec(op *Op) *OpResult {
	res := &OpResult{}
	ctx, done := ctxFor(op)
	defer done()
	l := h.log
	switch op.Kind {
	case "publish":
		msgs := make([]klevdb.Message, len(op.Msgs))
		for i, m := range op.Msgs {
			msgs[i] = klevdb.Message{Offset: m.Garbage, Key: m.Key, Value: m.Value}
			if !m.ZeroTime {
				msgs[i].Time = time.UnixMicro(m.T).UTC().Add(time.Duration(m.NS))
			}
		}
		if op.TooBig > 0 {
			// one byte beyond the bound counting key and value together: with a key the value alone
			// stays within it
			msgs[op.TooBig-1].Value = tooBigValue()[:64*1024*1024+1-len(msgs[op.TooBig-1].Key)]
			h.cov.Add("publish_with_oversized_message", 1)
		}
		res.Stage = "publish"
		res.Next, res.Err = kPublish(l, msgs)
		if op.TooBig > 0 && res.Err == nil {
			// accepted: the model cannot carry it; the history ends here
			res.Err = errors.New("verif: a message larger than the format's 64 MiB bound was accepted")
		}
		res.Pub = toRefs(msgs)
		for i, m := range op.Msgs {
			if !m.ZeroTime {
				// the published time is what the caller passed (kept at microsecond precision), not
				// whatever Publish may have written back into the slice
				res.Pub[i].T = m.T
			}
		}
	case "delete":
		set := offsetSet(op.Offsets)
		res.Stage = "delete" + op.Variant
		switch op.Variant {
		case "":
			var del []klevdb.Message
			del, res.Size, res.Err = kDelete(l, set)
			res.Deleted, res.HaveMsgs = toRefs(del), true
		case "multi":
			res.Err = guard(func() error {
				del, sz, err := klevdb.DeleteMulti(ctx, l, set, backoffFor(op))
				res.Deleted, res.Size, res.HaveMsgs = toRefs(del), sz, true
				return err
			})
		case "multioffsets":
			res.Err = guard(func() error {
				offs, sz, err := klevdb.DeleteMultiOffsets(ctx, l, set, backoffFor(op))
				res.DelOffs, res.Size = offs, sz
				return err
			})
		}
	case "trim":
		h.execTrim(ctx, op, res)
	case "compact":
		h.execCompact(ctx, op, res)
	case "gc":
		res.Stage = "gc"
		res.Err = kGC(l, time.Duration(op.N))
	case "sync":
		res.Stage = "sync"
		res.Next, res.Err = kSync(l)
	case "stat":
		res.Stage = "stat"
		_, res.Err = kStat(l)
	}
	if errors.Is(res.Err, errStopBackoff) {
		res.Stopped, res.Err = true, nil
		h.cov.Add("multi_stopped", 1)
	}
	if op.CancelAt != 0 {
		h.cov.Add("multi_context_cancelled", 1)
		if errors.Is(res.Err, context.Canceled) {
			// allowed to stop early with the context's error; what it returns is then the partial result
			res.Stopped, res.Err = true, nil
		}
	}
	if res.HaveMsgs || res.Deleted != nil {
		res.DelOffs = map[int64]struct{}{}
		for _, m := range res.Deleted {
			res.DelOffs[m.Offset] = struct{}{}
		}
	}
	return res
}

func (h *Hist) execTrim(ctx context.Context, op *Op, res *OpResult) {
	l := h.log
	res.Stage = "trim-" + op.Sub + op.Variant
	before := time.UnixMicro(op.N).UTC()
	// Find first (pure read), so the reported set of the mutating variant can be compared with it
	res.FoundErr = guard(func() error {
		var err error
		switch op.Sub {
		case "offset":
			res.Found, err = klevdb.FindByOffset(context.Background(), l, op.N)
		case "count":
			res.Found, err = klevdb.FindByCount(context.Background(), l, int(op.N))
		case "size":
			res.Found, err = klevdb.FindBySize(context.Background(), l, op.N)
		case "age":
			res.Found, err = klevdb.FindByAge(context.Background(), l, before)
		}
		return err
	})
	if op.Variant == "find" {
		res.Err = res.FoundErr
		return
	}
	res.Err = guard(func() error {
		var del []klevdb.Message
		var offs map[int64]struct{}
		var sz int64
		var err error
		msgsAPI := true
		switch op.Sub + "/" + op.Variant {
		case "offset/":
			del, sz, err = klevdb.TrimByOffset(ctx, l, op.N)
		case "offset/multi":
			del, sz, err = klevdb.TrimByOffsetMulti(ctx, l, op.N, backoffFor(op))
		case "offset/multioffsets":
			offs, sz, err = klevdb.TrimByOffsetMultiOffsets(ctx, l, op.N, backoffFor(op))
			msgsAPI = false
		case "count/":
			del, sz, err = klevdb.TrimByCount(ctx, l, int(op.N))
		case "count/multi":
			del, sz, err = klevdb.TrimByCountMulti(ctx, l, int(op.N), backoffFor(op))
		case "count/multioffsets":
			offs, sz, err = klevdb.TrimByCountMultiOffsets(ctx, l, int(op.N), backoffFor(op))
			msgsAPI = false
		case "size/":
			del, sz, err = klevdb.TrimBySize(ctx, l, op.N)
		case "size/multi":
			del, sz, err = klevdb.TrimBySizeMulti(ctx, l, op.N, backoffFor(op))
		case "size/multioffsets":
			del, sz, err = klevdb.TrimBySizeMultiOffsets(ctx, l, op.N, backoffFor(op))
		case "age/":
			del, sz, err = klevdb.TrimByAge(ctx, l, before)
		case "age/multi":
			del, sz, err = klevdb.TrimByAgeMulti(ctx, l, before, backoffFor(op))
		case "age/multioffsets":
			offs, sz, err = klevdb.TrimByAgeMultiOffsets(ctx, l, before, backoffFor(op))
			msgsAPI = false
		}
		res.Size = sz
		if msgsAPI {
			res.Deleted, res.HaveMsgs = toRefs(del), true
		} else {
			res.DelOffs = offs
		}
		return err
	})
}

func (h *Hist) execCompact(ctx context.Context, op *Op, res *OpResult) {
	l := h.log
	res.Stage = "compact-" + op.Sub + op.Variant
	before := time.UnixMicro(op.N).UTC()
	if op.Sub == "both" {
		// Compact(age): cut-offs are derived from the wall clock inside klevdb; op.N is the age in µs
		res.Err = guard(func() error { return klevdb.Compact(ctx, l, time.Duration(op.N)*time.Microsecond, noBackoff) })
		return
	}
	res.FoundErr = guard(func() error {
		var err error
		if op.Sub == "updates" {
			res.Found, err = klevdb.FindUpdates(context.Background(), l, before)
		} else {
			res.Found, err = klevdb.FindDeletes(context.Background(), l, before)
		}
		return err
	})
	if op.Variant == "find" {
		res.Err = res.FoundErr
		return
	}
	res.Err = guard(func() error {
		var del []klevdb.Message
		var offs map[int64]struct{}
		var sz int64
		var err error
		msgsAPI := true
		switch op.Sub + "/" + op.Variant {
		case "updates/":
			del, sz, err = klevdb.CompactUpdates(ctx, l, before)
		case "updates/multi":
			del, sz, err = klevdb.CompactUpdatesMulti(ctx, l, before, backoffFor(op))
		case "updates/multioffsets":
			offs, sz, err = klevdb.CompactUpdatesMultiOffsets(ctx, l, before, backoffFor(op))
			msgsAPI = false
		case "deletes/":
			del, sz, err = klevdb.CompactDeletes(ctx, l, before)
		case "deletes/multi":
			del, sz, err = klevdb.CompactDeletesMulti(ctx, l, before, backoffFor(op))
		case "deletes/multioffsets":
			offs, sz, err = klevdb.CompactDeletesMultiOffsets(ctx, l, before, backoffFor(op))
			msgsAPI = false
		}
		res.Size = sz
		if msgsAPI {
			res.Deleted, res.HaveMsgs = toRefs(del), true
		} else {
			res.DelOffs = offs
		}
		return err
	})
}

// apply updates the model from what the call reported.
func (h *Hist) apply(op *Op, res *OpResult) {
	switch op.Kind {
	case "publish":
		if res.Err != nil {
			return
		}
		for _, m := range res.Pub {
			if h.havePub && m.T < h.lastPubT {
				h.everNonDec = false
			}
			h.lastPubT, h.havePub = m.T, true
			if m.T < 0 {
				h.everPreEpoch = true
			}
		}
		h.model.Publish(res.Pub)
	case "delete", "trim", "compact":
		if len(res.DelOffs) > 0 {
			h.model.Remove(res.DelOffs)
		}
	}
}

func removeIndexFiles(dir string, bases []int64, all bool) {
	if all {
		segs, _, _ := listSegs(dir)
		for _, s := range segs {
			bases = append(bases, s.Base)
		}
	}
	for _, b := range bases {
		_, idx := ref.SegName(b)
		os.Remove(filepath.Join(dir, idx))
	}
}

func (h *Hist) runClosed(c ClosedOp) error {
	opts := h.opts.K()
	return guard(func() error {
		switch c.Kind {
		case "migrate1":
			return klevdb.Migrate(h.path(), opts, klevdb.V1)
		case "migrate2":
			return klevdb.Migrate(h.path(), opts, klevdb.V2)
		case "check":
			return klevdb.Check(h.path(), opts)
		case "recover":
			return klevdb.Recover(h.path(), opts)
		case "stat":
			_, err := klevdb.Stat(h.path(), opts)
			return err
		}
		return nil
	})
}
