package main

import (
	"bytes"
	"encoding/json"
	"fmt"
	"hash/fnv"
	"os"
	"path/filepath"
	"sort"
	"strings"
	"sync"
	"time"

	"github.com/klev-dev/klevdb"
	"github.com/klev-dev/klevdb/pkg/vhook"

	"verifharness/ref"
)

// histmon: sequential reference-model monitor.

type tierSize struct{ hist, steps int }

var histSizes = map[string]map[string]tierSize{
	"C01": {"quick": {400, 40}, "thorough": {12000, 60}},
	"C02": {"quick": {500, 30}, "thorough": {12000, 50}},
	"C03": {"quick": {300, 40}, "thorough": {800, 50}},
	"C04": {"quick": {300, 40}, "thorough": {8000, 60}},
	"C09": {"quick": {300, 40}, "thorough": {8000, 60}},
	"C10": {"quick": {300, 40}, "thorough": {8000, 60}},
	"C11": {"quick": {150, 30}, "thorough": {3000, 50}},
	"C12": {"quick": {400, 40}, "thorough": {12000, 60}},
	"C13": {"quick": {250, 40}, "thorough": {5000, 60}},
	"C15": {"quick": {400, 30}, "thorough": {12000, 50}},
	"C16": {"quick": {400, 30}, "thorough": {12000, 50}},
	"C17": {"quick": {200, 40}, "thorough": {5000, 60}},
	"C20": {"quick": {200, 30}, "thorough": {5000, 40}},
	"C19": {"quick": {100, 25}, "thorough": {3000, 30}},
}

func strHash(s string) int64 {
	h := fnv.New64a()
	h.Write([]byte(s))
	return int64(h.Sum64() >> 1)
}

func runHistmon(cfg *RunCfg, rep *Reporter, cov *Cov) {
	prop := cfg.Property
	sz := histSizes[prop][cfg.Tier]
	n := int(float64(sz.hist) * cfg.Scale)
	if n < 1 {
		n = 1
	}
	if c := collisionsValid(); c != len(collisionPairs) {
		rep.Inconclusive(fmt.Sprintf("only %d of %d precomputed FNV-1a collision pairs collide", c, len(collisionPairs)))
	}
	parallel(n, cfg.Workers, func(i int) {
		runOneHistory(cfg, rep, cov, i, sz.steps)
	})
	cov.Add("histories", int64(n))
	if prop == "C20" {
		runC20Concurrent(cfg, rep, cov)
	}
	if prop == "C09" {
		runTypedKeys(cfg, rep, cov)
	}
	if prop == "C16" {
		runCompactAges(cfg, rep, cov)
		runCompactManyKeys(cfg, rep, cov)
	}
}

func runOneHistory(cfg *RunCfg, rep *Reporter, cov *Cov, idx, steps int) {
	prop := cfg.Property
	r := NewRand(cfg.Seed, strHash(prop), int64(idx))
	prof := profileFor(prop)
	id := fmt.Sprintf("h%d", idx)
	h := &Hist{id: id, prop: prop, scratch: cfg.Scratch, cov: cov, rep: rep, tier: cfg.Tier, seed: cfg.Seed, idx: idx, everNonDec: true, segVer: map[int64]ref.Version{}}
	h.dir = filepath.Join(cfg.Scratch, id)
	h.gen = newGenState(r, prof, id)
	h.cfg = pick(r, prof.Cfgs)
	h.model = &ref.Model{Cfg: h.cfg}
	if prop == "C01" && idx%8 == 5 {
		h.gen.epochZero = true
	}
	if prop == "C20" && idx%5 == 3 {
		h.spell = []string{"//", "/./", "/.//"}[idx/5%3]
		cov.Add("histories_with_unclean_directory_spelling", 1)
	}
	defer func() {
		if h.log != nil {
			_ = kClose(h.log)
		}
		os.RemoveAll(h.dir)
		// remove any copies made by this history
		ents, _ := filepath.Glob(filepath.Join(cfg.Scratch, id+"-*"))
		for _, e := range ents {
			os.RemoveAll(e)
		}
	}()
	opts := h.gen.genOpenOpts(h.cfg, true)
	opts.Create = true
	first := Op{Kind: "reopen", Opts: &opts, Note: "initial"}
	h.ops = append(h.ops, first)
	if !h.open(opts, true) {
		return
	}
	if prop == "C19" && idx%5 == 0 {
		// a read-only session on the still empty directory
		first := Op{Kind: "rosession"}
		h.ops = append(h.ops, first)
		cov.Add("ops.rosession", 1)
		h.step(&first)
	}
	for s := 0; s < steps && !h.failed && h.aborted == ""; s++ {
		op := h.gen.genOp(h)
		h.ops = append(h.ops, op)
		cov.Add("ops."+op.Kind, 1)
		h.step(&op)
	}
	if !h.failed && h.aborted == "" && h.prop == "C20" {
		h.recheckBackup(h.bkDir())
	}
	if !h.failed && h.aborted == "" {
		// final close with the closed-directory checks
		fin := Op{Kind: "reopen", Opts: &h.opts, Note: "final"}
		h.ops = append(h.ops, fin)
		h.doReopen(&fin, true)
	}
	if h.aborted != "" {
		cov.Add("aborted_foreign", 1)
		cov.Add("aborted_foreign."+h.aborted, 1)
	}
	cov.Add("steps", int64(len(h.ops)))
	if !h.failed {
		cov.Sample("history", map[string]any{"history": id, "cfg": h.cfg.String(), "ops": opsShort(h.ops, 14), "final_live": len(h.model.Live), "final_next": h.model.Next})
	}
}

func opsShort(ops []Op, n int) []string {
	var out []string
	for i, o := range ops {
		if i >= n {
			out = append(out, fmt.Sprintf("... %d more", len(ops)-n))
			break
		}
		out = append(out, o.Short())
	}
	return out
}

// fail reports a violation of the property under check and stops the history.
func (h *Hist) fail(f *Fail) {
	if f == nil {
		return
	}
	h.failed = true
	h.rep.Report(Violation{
		Property: h.prop, Sig: "histmon|" + f.Sig, What: f.What, Detail: f.Detail,
		Replay: map[string]any{"history": h.id, "index": h.idx, "cfg": h.cfg, "ops": h.ops, "dir_listing": dirListing(h.dir),
			"model_next": h.model.Next, "model_live": ref.OffsetsOf(h.model.Live), "seed": h.seed, "tier": h.tier},
	})
}

func (h *Hist) abort(why string) {
	if h.aborted == "" {
		h.aborted = why
	}
}

func (h *Hist) owns(kind string) bool {
	switch kind {
	case "open", "close", "gc":
		return h.prop == "C01" || h.prop == "C17" && kind != "gc"
	case "publish", "sync":
		return h.prop == "C01" || h.prop == "C02"
	case "stat":
		return h.prop == "C13"
	case "delete":
		return h.prop == "C12"
	case "trim":
		return h.prop == "C15"
	case "compact":
		return h.prop == "C16"
	case "migrate":
		return h.prop == "C17" || h.prop == "C01"
	case "recover":
		return h.prop == "C01"
	case "check":
		return h.prop == "C11"
	case "backup":
		return h.prop == "C20"
	}
	return false
}

// callErr handles an error/panic of a call: violation when the property owns the call, else (when
// the history cannot continue) a foreign abort. It returns true when the history must stop.
func (h *Hist) callErr(kind, stage string, err error, fatal bool) bool {
	if err == nil {
		return false
	}
	if h.owns(kind) {
		sig := fmt.Sprintf("%s:error:%s", stage, errClass(err))
		if isPanic(err) {
			sig = fmt.Sprintf("%s:panic:%s", stage, panicFrame(err))
		}
		h.fail(&Fail{Sig: sig, What: fmt.Sprintf("%s failed: %s", stage, errText(err))})
		return true
	}
	if fatal || isPanic(err) {
		h.abort(stage + ":" + errClass(err))
		return true
	}
	return false
}

// bkDir is the backup target of the history; a quarter of them carry characters that mean something
// to pattern matchers ("[", "]", "*", "?") in their name - plain characters in a directory name.
func (h *Hist) bkDir() string {
	name := h.id + "-bk"
	if h.idx%4 == 1 {
		name += []string{"[1]", "[full]*", "?[a-z]"}[h.idx/4%3]
	}
	return filepath.Join(h.scratch, name)
}

// path is the directory as it is spelled for klevdb: a fifth of the C20 histories name their log
// with a path that filepath.Clean would change ("//" or "/./" before the last element).
func (h *Hist) path() string {
	if h.spell == "" {
		return h.dir
	}
	return filepath.Dir(h.dir) + h.spell + filepath.Base(h.dir)
}

func (h *Hist) open(o OpenOpts, initial bool) bool {
	l, err := kOpen(h.path(), o)
	if err != nil {
		h.callErr("open", "open", err, true)
		return false
	}
	h.log = l
	h.opts = o
	h.cov.Distinct("open_opts", fmt.Sprintf("ro=%v as=%v chk=%v rec=%v ver=%d keep=%v eager=%v typed=%v", o.Readonly, o.AutoSync, o.Check, o.Recover, o.NewVer, o.KeepVer, o.Eager, o.Typed))
	return true
}

// step executes one op, judges it and takes the property's observation.
func (h *Hist) step(op *Op) {
	switch op.Kind {
	case "reopen":
		h.doReopen(op, false)
		return
	case "backup":
		h.doBackup(op)
		return
	case "rosession":
		h.doROSession(op)
		return
	}
	pre := h.model.Clone()
	var preFiles map[string][]byte
	if h.needFiles(op) {
		preFiles, _ = dirSnapshot(h.dir)
	}
	preLay := layoutOf(h.dir)
	res := h.exec(op)
	// errors / panics
	if res.Err != nil && !h.expectedErr(op, pre, preLay, res) {
		fatal := op.Kind == "publish"
		if h.callErr(op.Kind, res.Stage, res.Err, fatal) {
			return
		}
	}
	if res.FoundErr != nil && res.Err == nil {
		r2 := *res
		r2.Err = res.FoundErr
		if !h.expectedErr(op, pre, preLay, &r2) && h.callErr(op.Kind, res.Stage+":find", res.FoundErr, false) {
			return
		}
	}
	h.judge(op, pre, preLay, preFiles, res)
	if h.failed {
		return
	}
	h.apply(op, res)
	h.observe(op, pre, res)
}

func (h *Hist) needFiles(op *Op) bool {
	switch h.prop {
	case "C12":
		return op.Kind == "delete"
	case "C13":
		return op.Kind == "publish"
	case "C17":
		return op.Kind == "delete" || op.Kind == "publish" || op.Kind == "trim" || op.Kind == "compact"
	case "C15":
		return op.Kind == "trim" && op.Sub == "size"
	}
	return false
}

// expectedErr: errors the API documents for the given arguments.
func (h *Hist) expectedErr(op *Op, pre *ref.Model, lay Layout, res *OpResult) bool {
	if isPanic(res.Err) {
		return false
	}
	cls := errClass(res.Err)
	switch op.Kind {
	case "publish":
		// a batch holding a message beyond the format's size bound is refused (as a whole: the model
		// is left unchanged, the following observations and publishes show whether the log was too)
		if op.TooBig > 0 && strings.Contains(errText(res.Err), "message too big") {
			return true
		}
	case "delete":
		neg := false
		for _, o := range op.Offsets {
			if o < 0 {
				neg = true
			}
		}
		if neg && cls == "ErrInvalidOffset" {
			return true
		}
		// Delete reports not-found when the lowest offset it is asked for lies below the first
		// segment. For the multi-pass drivers that is the lowest offset still requested when the
		// failing pass ran, against the layout that pass saw (earlier passes may have removed the
		// first segment).
		minRem := int64(1 << 62)
		for _, o := range op.Offsets {
			if _, gone := res.DelOffs[o]; !gone && o < minRem {
				minRem = o
			}
		}
		post := layoutOf(h.dir)
		if len(post.Bases) > 0 && minRem < post.Bases[0] && (cls == "ErrNotFound" || cls == "ErrInvalidOffset") {
			return true
		}
	case "trim":
		// FindByAge asks OffsetByTime first; on a log without live messages that call may answer
		// ErrInvalidOffset (C10 allows it), and the helper passes it on without selecting anything
		if op.Sub == "age" && h.cfg.Times && len(pre.Live) == 0 && cls == "ErrInvalidOffset" {
			return true
		}
	}
	return false
}

// ---------------------------------------------------------------------------------------
// judge: the call's own result, for the property that owns it

func (h *Hist) judge(op *Op, pre *ref.Model, preLay Layout, preFiles map[string][]byte, res *OpResult) {
	switch h.prop {
	case "C02":
		h.judgeC02(op, pre, res)
	case "C12":
		if op.Kind == "delete" {
			h.judgeC12(op, pre, preLay, preFiles, res)
		}
	case "C13":
		if op.Kind == "publish" && res.Err == nil {
			h.judgeC13Publish(op, pre, preFiles, res)
		}
	case "C15":
		if op.Kind == "trim" {
			h.judgeC15(op, pre, preFiles, res)
		}
	case "C16":
		if op.Kind == "compact" {
			h.judgeC16(op, pre, res)
		}
	case "C17":
		if preFiles != nil && res.Err == nil {
			h.judgeC17Versions(op, pre, preFiles)
		}
	}
	// generic sanity on reported deletions, for every property: the model can only remove live offsets
	if len(res.DelOffs) > 0 && h.prop != "C12" {
		for o := range res.DelOffs {
			if !pre.IsLive(o) {
				// not this property's clause; keep the model coherent and let C12 report it
				delete(res.DelOffs, o)
			}
		}
	}
}

func (h *Hist) judgeC02(op *Op, pre *ref.Model, res *OpResult) {
	switch op.Kind {
	case "publish":
		if res.Err != nil {
			return
		}
		n := int64(len(op.Msgs))
		if res.Next != pre.Next+n {
			h.fail(failf("publish:next", "Publish of %d messages returned %d, previous NextOffset %d", n, res.Next, pre.Next))
			return
		}
		for i, m := range res.Pub {
			if m.Offset != pre.Next+int64(i) {
				h.fail(failf("publish:written-back-offset", "message %d of the batch got offset %d written back, want %d", i, m.Offset, pre.Next+int64(i)))
				return
			}
		}
		// what preceded this publish: the last mutating op and whether the log was reopened since
		prev, reopened := "start", false
		for i := len(h.ops) - 2; i >= 0; i-- {
			k := h.ops[i].Kind
			if k == "reopen" || k == "rosession" {
				reopened = true
				continue
			}
			if k == "delete" || k == "trim" || k == "compact" || k == "publish" {
				prev = k
				if k == "delete" {
					prev += ":" + h.ops[i].Note
				}
				break
			}
		}
		empty := "live"
		if len(pre.Live) == 0 && pre.Next > 0 {
			empty = "all-deleted"
		} else if pre.Next == 0 {
			empty = "new"
		}
		h.cov.Distinct("c02", fmt.Sprintf("publish n=%d lay=%s after=%s reopened=%v log=%s", minInt(int(n), 2), layoutOf(h.dir).Pred(), prev, reopened, empty))
	case "sync":
		if res.Err == nil && res.Next != pre.Next {
			h.fail(failf("sync:next", "Sync returned %d, NextOffset is %d", res.Next, pre.Next))
		}
	}
}

func minInt(a, b int) int {
	if a < b {
		return a
	}
	return b
}

// segVersionsOf maps base -> version for a snapshot of files.
func segVersionsOf(files map[string][]byte) (bases []int64, vers map[int64]ref.Version) {
	vers = map[int64]ref.Version{}
	for n, b := range files {
		if strings.HasSuffix(n, ".log") {
			var base int64
			if _, err := fmt.Sscanf(strings.TrimSuffix(n, ".log"), "%d", &base); err == nil {
				v, _ := ref.SniffLog(b, base)
				vers[base] = v
				bases = append(bases, base)
			}
		}
	}
	sort.Slice(bases, func(i, j int) bool { return bases[i] < bases[j] })
	return
}

func containingBase(bases []int64, off int64) (int64, bool) {
	i := sort.Search(len(bases), func(i int) bool { return bases[i] > off }) - 1
	if i < 0 {
		return 0, false
	}
	return bases[i], true
}

func (h *Hist) judgeC12(op *Op, pre *ref.Model, preLay Layout, preFiles map[string][]byte, res *OpResult) {
	req := offsetSet(op.Offsets)
	neg := false
	for o := range req {
		if o < 0 {
			neg = true
		}
	}
	nrep := len(res.DelOffs)
	outcome := "nothing"
	defer func() {
		h.cov.Distinct("c12", fmt.Sprintf("%s%s:%s", op.Note, op.Variant, outcome))
	}()
	switch {
	case len(req) == 0:
		if res.Err != nil || nrep != 0 || res.Size != 0 {
			h.fail(failf("delete:empty-set", "Delete of an empty set: want (nil,0,nil), got %d msgs size=%d err=%s", nrep, res.Size, errText(res.Err)))
		}
		return
	case neg:
		if errClass(res.Err) != "ErrInvalidOffset" {
			h.fail(failf("delete:relative:"+errClass(res.Err), "Delete with a relative offset: want ErrInvalidOffset, got %s", errText(res.Err)))
			return
		}
		if nrep != 0 {
			h.fail(failf("delete:relative:deleted", "Delete with a relative offset reported %d deletions", nrep))
		}
		return
	}
	if res.Err != nil && nrep != 0 && op.Variant == "" {
		h.fail(failf("delete:error-with-result", "Delete returned an error and %d deleted messages", nrep))
		return
	}
	// reported ⊆ requested ∩ live, full content, no duplicates
	if res.HaveMsgs && len(res.Deleted) != nrep {
		h.fail(failf("delete:duplicate-report", "Delete reported %d messages but only %d distinct offsets", len(res.Deleted), nrep))
		return
	}
	for o := range res.DelOffs {
		if _, ok := req[o]; !ok {
			h.fail(failf("delete:not-requested", "Delete reported offset %d which was not requested %v", o, op.Offsets))
			return
		}
		if !pre.IsLive(o) {
			h.fail(failf("delete:not-live", "Delete reported offset %d which was not live", o))
			return
		}
	}
	for _, m := range res.Deleted {
		want, _ := pre.Get(m.Offset)
		if !m.Equal(want) {
			h.fail(failf("delete:content", "Delete reported %v, the published message was %v", m, want))
			return
		}
	}
	// size = sum of storage sizes in the containing segment's on-disk version + index item size
	bases, vers := segVersionsOf(preFiles)
	var want int64
	for o := range res.DelOffs {
		m, _ := pre.Get(o)
		b, ok := containingBase(bases, o)
		if !ok {
			h.fail(failf("delete:no-segment", "reported offset %d lies below every segment", o))
			return
		}
		v := vers[b]
		if v == ref.VNone {
			v = ref.V1
		}
		want += int64(ref.RecordSize(m, v) + h.cfg.ItemSize())
	}
	if res.Size != want {
		h.fail(failf("delete:size", "Delete reported size %d, storage size of the %d reported messages is %d", res.Size, nrep, want))
		return
	}
	// multi variants over live offsets remove all of them
	if op.Variant != "" && res.Err == nil && !res.Stopped {
		allLive := true
		for o := range req {
			if !pre.IsLive(o) {
				allLive = false
			}
		}
		if allLive && nrep != len(req) {
			h.fail(failf("deletemulti:incomplete", "Delete%s over %d live offsets removed only %d", op.Variant, len(req), nrep))
			return
		}
	}
	if nrep > 0 {
		// structural outcome class for coverage
		postLay := layoutOf(h.dir)
		outcome = structuralOutcome(preLay, postLay, res.DelOffs)
	}
	// deleting again deletes nothing (sampled)
	if h.gen.r.Chance(0.35) {
		del, sz, err := kDelete(h.log, req)
		lay := layoutOf(h.dir)
		minOff := int64(1 << 62)
		for o := range req {
			if o < minOff {
				minOff = o
			}
		}
		// offsets of this call that were not deleted by the first call and are still live may legitimately go now
		for _, m := range del {
			if _, gone := res.DelOffs[m.Offset]; gone {
				h.fail(failf("delete:again-deleted", "second Delete of the same set reported offset %d again", m.Offset))
				return
			}
		}
		if err != nil {
			okErr := len(lay.Bases) > 0 && minOff < lay.Bases[0] && (errClass(err) == "ErrNotFound" || errClass(err) == "ErrInvalidOffset")
			if !okErr {
				h.fail(failf("delete:again-error:"+errClass(err), "second Delete of the same set failed: %s", errText(err)))
				return
			}
		}
		if len(del) > 0 {
			// feed the extra deletions to the model through the result
			for _, m := range del {
				if !pre.IsLive(m.Offset) {
					h.fail(failf("delete:not-live", "second Delete reported offset %d which was not live", m.Offset))
					return
				}
				res.DelOffs[m.Offset] = struct{}{}
			}
			_ = sz
		}
	}
}

func structuralOutcome(pre, post Layout, del map[int64]struct{}) string {
	var minDel int64 = 1 << 62
	for o := range del {
		if o < minDel {
			minDel = o
		}
	}
	b, _ := containingBase(pre.Bases, minDel)
	kind := "reader"
	if len(pre.Bases) > 0 && b == pre.Bases[len(pre.Bases)-1] {
		kind = "head"
	}
	has := func(bs []int64, x int64) bool {
		for _, y := range bs {
			if x == y {
				return true
			}
		}
		return false
	}
	switch {
	case len(post.Bases) > len(pre.Bases):
		return kind + ":tail-removed-new-head"
	case !has(post.Bases, b) && len(post.Bases) < len(pre.Bases):
		return kind + ":emptied"
	case !has(post.Bases, b):
		if kind == "head" && post.HeadEmpty {
			return kind + ":emptied"
		}
		return kind + ":rebased"
	}
	return kind + ":same-base"
}

func (h *Hist) judgeC13Publish(op *Op, pre *ref.Model, preFiles map[string][]byte, res *OpResult) {
	post, err := dirSnapshot(h.dir)
	if err != nil {
		return
	}
	var growth int64
	for n, b := range post {
		if !(strings.HasSuffix(n, ".log") || strings.HasSuffix(n, ".index")) {
			continue
		}
		if old, ok := preFiles[n]; ok {
			growth += int64(len(b) - len(old))
		} else {
			// a new file: do not count its file header
			hdr := 0
			if strings.HasSuffix(n, ".log") && bytes.HasPrefix(b, ref.LogMagic) {
				hdr = ref.FileHeaderSize
			}
			if strings.HasSuffix(n, ".index") && bytes.HasPrefix(b, ref.IndexMagic) {
				hdr = ref.FileHeaderSize
			}
			growth += int64(len(b) - hdr)
		}
	}
	// the head after the call holds the batch
	bases, vers := segVersionsOf(post)
	if len(bases) == 0 {
		return
	}
	hv := vers[bases[len(bases)-1]]
	if hv == ref.VNone {
		hv = ref.V1 // an empty V1 head; nothing was published
	}
	var want, viaSize int64
	for _, m := range res.Pub {
		want += int64(ref.RecordSize(m, hv) + h.cfg.ItemSize())
		viaSize += h.log.Size(fromRef(m))
	}
	if growth != want {
		h.fail(failf("publish:growth", "publishing %d messages grew the segment files by %d bytes, the documented layout needs %d (head version %v)", len(res.Pub), growth, want, hv))
		return
	}
	if hv == h.opts.EffVer() && viaSize != growth {
		h.fail(failf("size:mismatch", "Size(m) summed over the batch is %d, the segment files grew by %d", viaSize, growth))
		return
	}
	for _, m := range res.Pub {
		if got, w := h.log.Size(fromRef(m)), int64(ref.RecordSize(m, h.opts.EffVer())+h.cfg.ItemSize()); got != w {
			h.fail(failf("size:formula", "Size(%v)=%d, documented layout %d", m, got, w))
			return
		}
	}
	h.cov.Distinct("c13", fmt.Sprintf("publish-growth ver=%v cfg=%s n=%d", hv, h.cfg, minInt(len(res.Pub), 3)))
}

// ---------------------------------------------------------------------------------------
// C15

func isPrefixOfLive(pre *ref.Model, found map[int64]struct{}) (int, bool) {
	j := len(found)
	if j > len(pre.Live) {
		return j, false
	}
	for i := 0; i < j; i++ {
		if _, ok := found[pre.Live[i].Offset]; !ok {
			return j, false
		}
	}
	return j, true
}

func (h *Hist) judgeC15(op *Op, pre *ref.Model, preFiles map[string][]byte, res *OpResult) {
	if res.FoundErr != nil {
		return
	}
	found := res.Found
	j, ok := isPrefixOfLive(pre, found)
	if !ok {
		h.fail(failf("find-"+op.Sub+":not-prefix", "FindBy%s(%d) returned %v which is not a prefix of the live sequence %v", op.Sub, op.N, keysOf(found), ref.OffsetsOf(pre.Live)))
		return
	}
	live := pre.Live
	boundClass := "inside"
	switch op.Sub {
	case "offset":
		want := 0
		switch {
		case op.N == klevdb.OffsetOldest:
			want = 0
		case op.N == klevdb.OffsetNewest:
			want = len(live)
		default:
			want = pre.IdxAtOrAfter(op.N)
		}
		if j != want {
			h.fail(failf("find-offset:bound", "FindByOffset(%d) selected %d messages, %d live messages lie below the bound", op.N, j, want))
			return
		}
	case "count":
		want := len(live) - int(op.N)
		if want < 0 {
			want = 0
		}
		if j != want {
			h.fail(failf("find-count:bound", "FindByCount(%d) on %d live messages selected %d, want %d", op.N, len(live), j, want))
			return
		}
	case "size":
		// single-version logs only: every non-empty segment in the version Size() assumes
		_, vers := segVersionsOf(preFiles)
		single := true
		for _, v := range vers {
			if v != ref.VNone && v != h.opts.EffVer() {
				single = false
			}
		}
		var stat int64
		for n, b := range preFiles {
			if strings.HasSuffix(n, ".log") || strings.HasSuffix(n, ".index") {
				stat += int64(len(b))
			}
		}
		for n := range preFiles {
			if strings.HasSuffix(n, ".log") {
				if _, ok := preFiles[strings.TrimSuffix(n, ".log")+".index"]; !ok {
					single = false // an index file is missing: Stat is not defined by the files alone
				}
			}
		}
		h.sizeOracle = single
		if !single {
			h.cov.Add("c15.size_skipped_mixed", 1)
			boundClass = "skipped"
			break
		}
		want := 0
		if stat >= op.N {
			total := stat
			for want < len(live) && total >= op.N {
				if total == op.N && want > 0 {
					h.cov.Add("c15.size_target_on_exact_boundary", 1) // where '<' and '<=' differ (C15-n)
				}
				total -= int64(ref.RecordSize(live[want], h.opts.EffVer()) + h.cfg.ItemSize())
				want++
			}
		}
		if j != want {
			h.fail(failf("find-size:bound", "FindBySize(%d) with Stat size %d selected %d messages, the size estimate requires %d", op.N, stat, j, want))
			return
		}
	case "age":
		for i := 0; i < j; i++ {
			if live[i].T > op.N {
				h.fail(failf("find-age:newer-selected", "FindByAge(%d) selected offset %d with time %d newer than the bound", op.N, live[i].Offset, live[i].T))
				return
			}
		}
		if ref.TimesNonDecreasing(live) && h.everNonDec {
			for i := j; i < len(live); i++ {
				if live[i].T < op.N {
					h.fail(failf("find-age:older-left", "FindByAge(%d) (times non-decreasing) left offset %d with older time %d", op.N, live[i].Offset, live[i].T))
					return
				}
			}
		}
	}
	if j == 0 {
		boundClass = "below"
	} else if j == len(live) {
		boundClass = "all"
	}
	h.cov.Distinct("c15", fmt.Sprintf("%s%s:%s:%s", op.Sub, op.Variant, boundClass, layoutOf(h.dir).Pred()))
	if op.Variant == "find" || res.Err != nil {
		return
	}
	if op.Sub == "size" && !h.sizeOracle {
		// with an index file missing, Stat (and with it the size-based selection) changes as soon as a
		// read rebuilds the index - the harness's own FindBySize call before the trim does exactly
		// that, so its result cannot be compared with what the trim selected internally
		return
	}
	// reported deletions
	for o := range res.DelOffs {
		if _, ok := found[o]; !ok {
			h.fail(failf("trim-"+op.Sub+":outside-found", "TrimBy%s%s removed offset %d outside the selected prefix %v", op.Sub, op.Variant, o, keysOf(found)))
			return
		}
	}
	if (op.Variant == "multi" || op.Variant == "multioffsets") && !res.Stopped {
		if len(res.DelOffs) != len(found) {
			h.fail(failf("trim-"+op.Sub+":incomplete", "TrimBy%s%s removed %d of the %d selected messages", op.Sub, op.Variant, len(res.DelOffs), len(found)))
			return
		}
	}
}

func keysOf(s map[int64]struct{}) []int64 {
	out := make([]int64, 0, len(s))
	for k := range s {
		out = append(out, k)
	}
	sort.Slice(out, func(i, j int) bool { return out[i] < out[j] })
	return out
}

// ---------------------------------------------------------------------------------------
// C16

func (h *Hist) judgeC16(op *Op, pre *ref.Model, res *OpResult) {
	live := pre.Live
	if op.Sub == "both" {
		return // judged in observe (latest-value map) — removed set is not reported by Compact
	}
	if res.FoundErr != nil {
		return
	}
	check := func(set map[int64]struct{}, what string) bool {
		for o := range set {
			m, ok := pre.Get(o)
			if !ok {
				h.fail(failf("compact-"+op.Sub+":not-live", "%s selected offset %d which is not live", what, o))
				return false
			}
			if m.T > op.N {
				h.fail(failf("compact-"+op.Sub+":newer-than-cutoff", "%s selected offset %d (time %d) newer than the cut-off %d", what, o, m.T, op.N))
				return false
			}
			i := pre.IdxAtOrAfter(o)
			if op.Sub == "updates" {
				later := false
				for _, x := range live[i+1:] {
					if bytes.Equal(x.Key, m.Key) {
						later = true
						break
					}
				}
				if !later {
					h.fail(failf("compact-updates:no-later", "%s selected offset %d although no later live message has key %s", what, o, keyName(m.Key)))
					return false
				}
			} else {
				if len(m.Value) != 0 {
					h.fail(failf("compact-deletes:has-value", "%s selected offset %d which has a value", what, o))
					return false
				}
				for _, x := range live[:i] {
					if bytes.Equal(x.Key, m.Key) {
						h.fail(failf("compact-deletes:not-oldest", "%s selected offset %d although %d is an older live message of key %s", what, o, x.Offset, keyName(m.Key)))
						return false
					}
				}
			}
		}
		return true
	}
	if !check(res.Found, "Find"+op.Sub) {
		return
	}
	if op.Variant != "find" && res.Err == nil {
		if !check(res.DelOffs, "Compact"+op.Sub+op.Variant) {
			return
		}
		if (op.Variant == "multi" || op.Variant == "multioffsets") && !res.Stopped && op.Sub == "updates" && h.everNonDec && ref.TimesNonDecreasing(live) {
			// at most one message per key remains among those not newer than the cut-off
			seen := map[string]int64{}
			for _, x := range live {
				if _, gone := res.DelOffs[x.Offset]; gone || x.T > op.N {
					continue
				}
				if prev, dup := seen[string(x.Key)]; dup {
					h.fail(failf("compact-updates:duplicates-left", "CompactUpdates%s(cut-off %d) left offsets %d and %d of key %s", op.Variant, op.N, prev, x.Offset, keyName(x.Key)))
					return
				}
				seen[string(x.Key)] = x.Offset
			}
		}
	}
	cls := "none"
	if len(res.Found) > 0 {
		cls = "some"
	}
	h.cov.Distinct("c16", fmt.Sprintf("%s%s:%s:%s", op.Sub, op.Variant, cls, layoutOf(h.dir).Pred()))
}

// ---------------------------------------------------------------------------------------
// C17 version audit around mutating ops of an open session

func (h *Hist) judgeC17Versions(op *Op, pre *ref.Model, preFiles map[string][]byte) {
	post, err := dirSnapshot(h.dir)
	if err != nil {
		return
	}
	preBases, preVers := segVersionsOf(preFiles)
	postBases, postVers := segVersionsOf(post)
	eff := h.opts.EffVer()
	for _, b := range postBases {
		name, _ := ref.SegName(b)
		v := postVers[b]
		nb := post[name]
		if v == ref.VNone {
			continue
		}
		if ob, ok := preFiles[name]; ok && bytes.HasPrefix(nb, ob) && len(ob) > 0 {
			continue // unchanged or appended to
		}
		if b >= pre.Next {
			if v != eff {
				h.fail(failf("version:new-segment", "segment %d created in a session with NewSegmentsVersion=%v has version %v", b, eff, v))
				return
			}
			h.cov.Distinct("c17", fmt.Sprintf("new-segment:%v", v))
			continue
		}
		// rewritten (possibly rebased) segment, or an empty pre file that got its first records
		src, ok := containingBase(preBases, b)
		if !ok {
			continue
		}
		if ob := preFiles[fmt.Sprintf("%020d.log", src)]; len(ob) == 0 || (len(ob) == ref.FileHeaderSize && bytes.HasPrefix(ob, ref.LogMagic)) {
			// an empty head that received its first records
			if len(ob) == 0 && v != eff {
				h.fail(failf("version:first-append", "empty unversioned head %d got version %v on first append, NewSegmentsVersion=%v", b, v, eff))
				return
			}
			continue
		}
		want := eff
		if h.opts.KeepVer {
			want = preVers[src]
		}
		if v != want {
			h.fail(failf("version:rewrite", "segment %d rewritten from %d (version %v) with KeepRewriteVersion=%v NewSegmentsVersion=%v has version %v", b, src, preVers[src], h.opts.KeepVer, eff, v))
			return
		}
		h.cov.Distinct("c17", fmt.Sprintf("rewrite:%v->%v keep=%v", preVers[src], v, h.opts.KeepVer))
	}
}

// ---------------------------------------------------------------------------------------
// observe: the property's quiescent-point observation after a step

func (h *Hist) scanAndCompare(batch int64) *Fail {
	got, end, f := scanLog(h.log, batch, len(h.model.Live)+int(h.model.Next)+16)
	if f != nil {
		return f
	}
	if f := compareSeq(got, h.model.Live); f != nil {
		return f
	}
	if end != h.model.Next {
		return failf("scan:end", "scan ended at %d, model NextOffset %d", end, h.model.Next)
	}
	return nil
}

func (h *Hist) stateSig() string {
	lay := layoutOf(h.dir)
	holes := "none"
	if n := int64(len(h.model.Live)); n > 0 && h.model.Live[n-1].Offset-h.model.Live[0].Offset+1 != n {
		holes = "holes"
	}
	if len(h.model.Live) == 0 && h.model.Next > 0 {
		holes = "all-deleted"
	}
	return fmt.Sprintf("%s segs=%d %s holes=%s", h.cfg, minInt(lay.Segs, 5), lay.Pred(), holes)
}

func (h *Hist) nontrivialState() bool {
	lay := layoutOf(h.dir)
	n := int64(len(h.model.Live))
	holes := (n > 0 && h.model.Live[n-1].Offset-h.model.Live[0].Offset+1 != n) || (n == 0 && h.model.Next > 0)
	return lay.Segs >= 2 && (holes || lay.HeadEmpty)
}

func (h *Hist) observe(op *Op, pre *ref.Model, res *OpResult) {
	if h.log == nil || h.failed {
		return
	}
	m := h.model
	batch := []int64{1, 3, 32}[len(h.ops)%3]
	sig := h.stateSig()
	if h.nontrivialState() {
		h.cov.Distinct("state_nontrivial", sig+fmt.Sprintf(" live=%d", minInt(len(m.Live), 12)))
	}
	h.cov.Distinct("state", sig)
	switch h.prop {
	case "C01", "C12", "C15", "C16", "C20", "C19":
		h.cov.Add("evaluations", 1)
		h.fail(h.scanAndCompare(batch))
	case "C17":
		h.cov.Add("evaluations", 1)
		h.fail(h.scanAndCompare(batch))
		if nx, err := kNext(h.log); err == nil && nx != m.Next && !h.failed {
			h.fail(failf("next:changed", "NextOffset=%d, model %d", nx, m.Next))
		}
	case "C02":
		h.cov.Add("evaluations", 1)
		nx, err := kNext(h.log)
		if err != nil {
			h.fail(failf("nextoffset:error:"+errClass(err), "NextOffset failed: %s", errText(err)))
			return
		}
		if nx != m.Next {
			lay := layoutOf(h.dir)
			h.fail(failf("nextoffset:mismatch:"+lay.Pred(), "NextOffset=%d but one more than the largest offset ever assigned is %d (after %s)", nx, m.Next, op.Short()))
			return
		}
		got, _, f := scanLog(h.log, batch, len(m.Live)+int(m.Next)+16)
		if f != nil {
			return // reading is C01/C03's business
		}
		for _, g := range got {
			if g.Offset >= m.Next {
				h.fail(failf("scan:offset-beyond-next", "scan shows offset %d >= NextOffset %d", g.Offset, m.Next))
				return
			}
			if w, ok := m.Get(g.Offset); ok && !g.Equal(w) {
				h.fail(failf("offset-reused", "offset %d now holds %v, it was assigned to %v", g.Offset, g, w))
				return
			}
		}
	case "C03":
		h.observeC03()
	case "C04":
		h.observeC04()
	case "C09":
		h.observeC09()
	case "C10":
		h.observeC10()
	case "C13":
		h.cov.Add("evaluations", 1)
		if f := statCell(h.log, m, h.dir); f != nil {
			f.Sig += ":" + layoutOf(h.dir).Pred()
			h.fail(f)
		}
	}
	if h.failed {
		return
	}
	// post-op clauses that need the state after the call
	switch h.prop {
	case "C15":
		if op.Kind == "trim" && (op.Variant == "multi" || op.Variant == "multioffsets") && res.Err == nil && !res.Stopped && res.FoundErr == nil {
			h.postTrimBound(op, pre)
		}
	case "C16":
		if op.Kind == "compact" {
			a, b := ref.LatestByKey(pre.Live), ref.LatestByKey(m.Live)
			if len(a) != len(b) {
				h.fail(failf("compact:latest-changed", "compaction changed the set of keys with a value: %d -> %d", len(a), len(b)))
				return
			}
			for k, v := range a {
				if b[k] != v {
					h.fail(failf("compact:latest-changed", "compaction changed the latest value of key %q", k))
					return
				}
			}
			h.cov.Add("evaluations", 1)
		}
	}
}

func (h *Hist) postTrimBound(op *Op, pre *ref.Model) {
	m := h.model
	switch op.Sub {
	case "offset":
		bound := op.N
		if bound == klevdb.OffsetNewest {
			bound = pre.Next
		}
		if bound >= 0 && len(m.Live) > 0 && m.Live[0].Offset < bound {
			h.fail(failf("trim-offset:bound", "after TrimByOffset%s(%d) offset %d is still live", op.Variant, op.N, m.Live[0].Offset))
		}
	case "count":
		want := minInt(len(pre.Live), int(op.N))
		if len(m.Live) != want {
			h.fail(failf("trim-count:bound", "after TrimByCount%s(%d) on %d messages %d are left, want %d", op.Variant, op.N, len(pre.Live), len(m.Live), want))
		}
	case "size":
		if !h.sizeOracle {
			return // evaluated only for single-version logs with all index files (decided on the state before the call)
		}
		st, err := kStat(h.log)
		if err != nil {
			return
		}
		if len(m.Live) > 0 && st.Size >= op.N {
			h.fail(failf("trim-size:bound", "after TrimBySize%s(%d) Stat size is %d with %d messages left", op.Variant, op.N, st.Size, len(m.Live)))
		}
	case "age":
		if h.everNonDec && ref.TimesNonDecreasing(pre.Live) {
			for _, x := range m.Live {
				if x.T < op.N {
					h.fail(failf("trim-age:older-left", "after TrimByAge%s(%d) offset %d with older time %d is left", op.Variant, op.N, x.Offset, x.T))
					return
				}
			}
		}
	}
}

func mustSnap(dir string) map[string][]byte {
	s, _ := dirSnapshot(dir)
	return s
}

var c03QuickMax = []int64{1, 2, 3, 5, 8, 13, 40}

// gridOffset: on large logs (a few histories keep hundreds of messages in one segment) the offset
// grids are sampled: both ends, every offset next to a hole, and a rotating ninth of the rest.
func gridOffset(m *ref.Model, off int64, step int) bool {
	if m.Next <= 150 || off < 8 || off > m.Next-8 {
		return true
	}
	if off%9 == int64(step%9) {
		return true
	}
	return !m.IsLive(off) || !m.IsLive(off-1) || !m.IsLive(off+1)
}

func (h *Hist) observeC03() {
	m := h.model
	lay := layoutOf(h.dir)
	maxes := c03QuickMax
	if h.tier == "thorough" {
		maxes = nil
		for i := int64(1); i <= 40; i++ {
			maxes = append(maxes, i)
		}
	}
	for off := int64(-5); off <= m.Next+2; off++ {
		if !gridOffset(m, off, len(h.ops)) {
			continue
		}
		cls := offsetClass(m, lay, off)
		for _, mx := range maxes {
			h.cov.Add("evaluations", 1)
			if f := consumeCell(h.log, m, off, mx); f != nil {
				f.Sig += ":" + cls
				h.fail(f)
				return
			}
			mc := "1"
			if mx > 1 {
				mc = "n"
			}
			if cls != "live" {
				h.cov.Distinct("c03", fmt.Sprintf("%s|%s|max=%s", h.stateSig(), cls, mc))
			}
		}
	}
	for _, mx := range maxes {
		h.cov.Add("evaluations", 1)
		if f := consumeIterate(h.log, m, mx); f != nil {
			f.Sig += ":" + lay.Pred()
			h.fail(f)
			return
		}
	}
}

func (h *Hist) observeC04() {
	m := h.model
	lay := layoutOf(h.dir)
	scanned, _, sf := scanLog(h.log, 16, len(m.Live)+int(m.Next)+16)
	inScan := map[int64]bool{}
	for _, x := range scanned {
		inScan[x.Offset] = true
	}
	for off := int64(-2); off <= m.Next+2; off++ {
		h.cov.Add("evaluations", 1)
		cls := offsetClass(m, lay, off)
		if f := getCell(h.log, m, off); f != nil {
			f.Sig += ":" + cls
			if off < 0 {
				f.Sig += ":" + lay.Pred()
			}
			h.fail(f)
			return
		}
		// Get agrees with what Consume shows for the same offset
		if sf == nil && off >= 0 {
			_, err := kGet(h.log, off)
			if (err == nil) != inScan[off] {
				h.fail(failf("get:disagrees-with-consume:"+cls, "Get(%d) err=%s but the scan %s offset %d", off, errClass(err), map[bool]string{true: "contains", false: "does not contain"}[inScan[off]], off))
				return
			}
		}
		if cls != "live" {
			h.cov.Distinct("c04", fmt.Sprintf("%s|%s", h.stateSig(), cls))
		}
	}
}

func (h *Hist) observeC09() {
	m := h.model
	for _, k := range h.gen.allKeys() {
		h.cov.Add("evaluations", 1)
		if f := getByKeyCell(h.log, m, k); f != nil {
			h.fail(f)
			return
		}
		for _, mx := range []int64{1, 2, 5, 32} {
			h.cov.Add("evaluations", 1)
			if f := consumeByKeyIterate(h.log, m, k, mx); f != nil {
				h.fail(f)
				return
			}
		}
		if m.Cfg.Keys {
			for off := int64(-2); off <= m.Next; off++ {
				if !gridOffset(m, off, len(h.ops)) {
					continue
				}
				h.cov.Add("evaluations", 1)
				if _, _, f := consumeByKeyCell(h.log, m, k, off, 3); f != nil {
					h.fail(f)
					return
				}
			}
		}
		// coverage class of this key in this state
		cls := h.keyClass(k)
		if cls != "plain" {
			h.cov.Distinct("c09", fmt.Sprintf("%s|%s", h.stateSig(), cls))
		}
	}
}

// keyClass: what makes a key lookup interesting in the current state.
func (h *Hist) keyClass(k []byte) string {
	m := h.model
	var parts []string
	if len(k) == 0 {
		parts = append(parts, "nil-or-empty")
	}
	_, present := m.LastWithKey(k)
	if !present {
		parts = append(parts, "absent")
	}
	kh := ref.KeyHash(k)
	for _, x := range m.Live {
		if !bytes.Equal(x.Key, k) && ref.KeyHash(x.Key) == kh {
			parts = append(parts, "collides-with-live")
			break
		}
	}
	if present {
		// is the last occurrence outside the newest segment?
		lay := layoutOf(h.dir)
		last, _ := m.LastWithKey(k)
		if len(lay.Bases) > 1 && last.Offset < lay.Bases[len(lay.Bases)-1] {
			parts = append(parts, "only-in-older-segment")
		}
	}
	if len(parts) == 0 {
		return "plain"
	}
	return strings.Join(parts, "+")
}

func (h *Hist) observeC10() {
	m := h.model
	if !m.Cfg.Times {
		h.cov.Add("evaluations", 1)
		if f := getByTimeCell(h.log, m, baseTime); f != nil {
			h.fail(f)
		}
		return
	}
	if !h.everNonDec || !ref.TimesNonDecreasing(m.Live) {
		h.cov.Add("c10.skipped_decreasing", 1)
		return
	}
	lay := layoutOf(h.dir)
	capN := 400
	if h.tier == "thorough" {
		capN = 1200
	}
	for _, t := range timeSweep(m, capN) {
		h.cov.Add("evaluations", 1)
		if f := getByTimeCell(h.log, m, t); f != nil {
			f.Sig += ":" + h.timeClass(t, lay)
			if h.everPreEpoch {
				// state predicate of finding D20: the running maximum that the time index stores
				// starts at 0, so every message time before 1970-01-01 is indexed as 0
				f.Sig = "time-lookup:pre-epoch(message times before 1970 are indexed as 0)"
			}
			h.fail(f)
			return
		}
		if c := h.timeClass(t, lay); c != "plain" {
			h.cov.Distinct("c10", fmt.Sprintf("%s|%s", h.stateSig(), c))
		}
	}
}

// timeClass: layout class of a time query: does the answer sit at a segment start whose previous
// segment ends with the same timestamp (plateau straddling a boundary), is the head empty, ...
func (h *Hist) timeClass(t int64, lay Layout) string {
	m := h.model
	var parts []string
	if lay.HeadEmpty && lay.Segs > 1 {
		parts = append(parts, "head_empty")
	}
	if w, ok := m.FirstAtOrAfterTime(t); ok {
		i := m.IdxAtOrAfter(w.Offset)
		// straddle: a later segment starts with a message of the same time as the answer
		for _, b := range lay.Bases {
			if b > w.Offset {
				j := m.IdxAtOrAfter(b)
				if j < len(m.Live) && m.Live[j].T == w.T && j > i {
					parts = append(parts, "plateau-straddles-boundary")
				}
				break
			}
		}
	} else if len(m.Live) > 0 {
		parts = append(parts, "after-all")
	}
	if len(m.Live) == 0 {
		parts = append(parts, "no-live")
	}
	if len(parts) == 0 {
		return "plain"
	}
	return strings.Join(parts, "+")
}

// ---------------------------------------------------------------------------------------
// reopen (Close, closed-directory checks, index removal, package-level calls, Open)

// crashSnap: the image of a directory taken by the hook handler inside a Delete (what a process
// killed there leaves behind, temp files of the rewrite included).
type crashSnap struct {
	src, dst string
	done     bool
	err      error
}

var crashSnaps sync.Map // goroutine id -> *crashSnap
var crashHookOnce sync.Once

func installCrashHook() {
	crashHookOnce.Do(func() {
		vhook.Set(func(point string) {
			if point != "delete.afterRewrite" {
				return
			}
			v, ok := crashSnaps.Load(goid())
			if !ok {
				return
			}
			cs := v.(*crashSnap)
			if cs.done {
				return
			}
			cs.done = true
			cs.err = copyDir(cs.src, cs.dst)
		})
	})
}

// crashInsideDelete runs a real Delete and replaces the directory by the image taken after its
// rewrite and before its swap: the delete is not applied there, its temp files are present.
func (h *Hist) crashInsideDelete(op *Op) bool {
	installCrashHook()
	snap := h.tmpDir("crash")
	cs := &crashSnap{src: h.dir, dst: snap}
	g := goid()
	crashSnaps.Store(g, cs)
	_, _, derr := kDelete(h.log, offsetSet(op.CrashDel))
	crashSnaps.Delete(g)
	kClose(h.log)
	h.log = nil
	if !cs.done || cs.err != nil {
		os.RemoveAll(snap)
		if derr != nil && !cs.done {
			// the delete failed before its rewrite finished: nothing to image; the history cannot tell
			// what was applied
			h.abort("crash-delete:" + errClass(derr))
			return false
		}
		h.abort("crash-delete:no-image")
		return false
	}
	if err := os.RemoveAll(h.dir); err != nil {
		h.abort("crash-delete:swap")
		return false
	}
	if err := os.Rename(snap, h.dir); err != nil {
		h.abort("crash-delete:swap")
		return false
	}
	h.cov.Add("reopen_on_crash_image_inside_delete", 1)
	h.cov.Distinct("crash_image_temp_files", fmt.Sprintf("temp=%d", layoutOf(h.dir).Temp))
	return true
}

func (h *Hist) doReopen(op *Op, final bool) {
	if len(op.CrashDel) > 0 && h.log != nil && !final {
		if !h.crashInsideDelete(op) {
			return
		}
	}
	if h.log != nil {
		err := kClose(h.log)
		h.log = nil
		if err != nil {
			h.callErr("close", "close", err, true)
			return
		}
	}
	// closed-directory clauses
	switch h.prop {
	case "C11":
		h.closedC11()
	case "C13":
		h.closedC13()
	case "C17":
		h.closedC17()
	}
	if h.failed || final {
		return
	}
	removeIndexFiles(h.dir, op.RemoveIdx, op.RemoveAll)
	for _, c := range op.Closed {
		h.cov.Add("closed."+c.Kind, 1)
		var before map[string][]byte
		if h.prop == "C17" && strings.HasPrefix(c.Kind, "migrate") {
			before = mustSnap(h.dir)
		}
		err := h.runClosed(c)
		kind := c.Kind
		if strings.HasPrefix(kind, "migrate") {
			kind = "migrate"
		}
		if err != nil {
			if h.callErr(kind, "closed-"+c.Kind, err, false) {
				return
			}
		}
		if before != nil && h.prop == "C17" {
			h.afterMigrate(c, before)
			if h.failed {
				return
			}
		}
	}
	o := *op.Opts
	if !h.open(o, false) {
		return
	}
	if h.prop == "C17" && o.Eager {
		_, vers := segVersionsOf(mustSnap(h.dir))
		for b, v := range vers {
			if v != ref.VNone && v != o.EffVer() {
				h.fail(failf("version:eager", "after Open(EagerVersionMigrate, NewSegmentsVersion=%v) segment %d has version %v", o.EffVer(), b, v))
				return
			}
		}
		h.cov.Distinct("c17", fmt.Sprintf("eager->%v", o.EffVer()))
	}
	// Half of the time the log is NOT read right after the reopen, so that the following ops meet
	// segments whose index has not been (re)loaded yet. The decision is stored in the op for replay.
	if op.Note == "" {
		op.Note = "observe"
		if h.gen.r.Chance(0.5) {
			op.Note = "no-observe"
		}
		h.ops[len(h.ops)-1].Note = op.Note
	}
	if op.Note != "no-observe" {
		h.observe(op, h.model, &OpResult{})
	} else {
		h.cov.Add("reopen_without_read", 1)
	}
}

func (h *Hist) afterMigrate(c ClosedOp, before map[string][]byte) {
	target := ref.V1
	if c.Kind == "migrate2" {
		target = ref.V2
	}
	after := mustSnap(h.dir)
	_, vers := segVersionsOf(after)
	for b, v := range vers {
		if v != ref.VNone && v != target {
			h.fail(failf("version:migrate", "after Migrate(%v) segment %d has version %v", target, b, v))
			return
		}
	}
	// the messages of every segment are unchanged (decoded with the reference codec)
	bb, _ := segVersionsOf(before)
	for _, b := range bb {
		name, _ := ref.SegName(b)
		_, s1, _, c1, _ := ref.ParseLog(before[name], b)
		_, s2, _, c2, _ := ref.ParseLog(after[name], b)
		if !c1 || !c2 {
			continue
		}
		if f := compareSeq(ref.Msgs(s2), ref.Msgs(s1)); f != nil {
			h.fail(failf("migrate:segment-content", "Migrate(%v) changed the messages of segment %d: %s", target, b, f.What))
			return
		}
	}
	// migrating twice is the same as once
	if err := h.runClosed(c); err != nil {
		h.fail(failf("migrate:second-error", "second %s failed: %s", c.Kind, errText(err)))
		return
	}
	again := mustSnap(h.dir)
	if ok, why := snapEqual(after, again); !ok {
		h.fail(failf("migrate:not-idempotent", "second Migrate(%v) changed the directory: %s", target, why))
		return
	}
	changed := "noop"
	if ok, _ := snapEqual(before, after); !ok {
		changed = "changed"
	}
	h.cov.Distinct("c17", fmt.Sprintf("migrate->%v:%s", target, changed))
}

// ---------------------------------------------------------------------------------------
// closed-directory clauses

// closedC11: every index file equals the index derived from its log; removing any subset of
// index files and reopening (rw and ro) answers every query identically.
func (h *Hist) closedC11() {
	audit, _, err := auditDir(h.dir, h.cfg)
	if err != nil {
		return
	}
	withTimes := h.everNonDec
	for _, a := range audit {
		h.cov.Add("evaluations", 1)
		if !a.HeaderOK || !a.Clean {
			h.fail(failf("audit:log-not-clean", "segment %d log does not parse completely after a clean Close", a.Base))
			return
		}
		if !a.HasIndex {
			// an index may be legitimately absent only if it was removed by the harness and never rebuilt
			continue
		}
		if a.IdxErr != nil {
			h.fail(failf("audit:index-undecodable", "segment %d index: %v", a.Base, a.IdxErr))
			return
		}
		want := ref.DeriveIndex(a.Spans, h.cfg)
		if ok, why := ref.ItemsEqual(a.IdxItems, want, withTimes); !ok {
			kind := "reader"
			if a.Base == audit[len(audit)-1].Base {
				kind = "head"
			}
			h.fail(failf("audit:index-differs:"+kind, "segment %d (%s) index differs from the index derived from its log: %s", a.Base, kind, why))
			return
		}
	}
	if len(audit) == 0 {
		return
	}
	// differential: subsets of index files removed
	var subsets [][]int64
	var all []int64
	for _, a := range audit {
		all = append(all, a.Base)
	}
	subsets = append(subsets, all)
	for _, b := range all {
		subsets = append(subsets, []int64{b})
	}
	if h.tier == "thorough" || len(all) > 6 {
		r := h.gen.r
		if len(all) > 6 {
			subsets = subsets[:1]
			for i := 0; i < 4; i++ {
				subsets = append(subsets, []int64{pick(r, all)})
			}
		}
		for i := 0; i < 3; i++ {
			var s []int64
			for _, b := range all {
				if r.Bool() {
					s = append(s, b)
				}
			}
			if len(s) > 0 {
				subsets = append(subsets, s)
			}
		}
	}
	oo := ObsOpts{Keys: h.gen.allKeys(), Times: timeSweep(h.model, 60), MaxOff: h.model.Next + 2, WithSize: false}
	if !h.cfg.Keys {
		oo.Keys = oo.Keys[:1]
	}
	if !h.cfg.Times || !h.everNonDec {
		// time lookups are only specified for non-decreasing times (C10); with decreasing times the
		// timestamp column itself is allowed to differ from the derived one (first sentence of C11)
		oo.Times = oo.Times[:1]
		if h.cfg.Times {
			oo.Times = nil
		}
	}
	base := OpenOpts{KeyIndex: h.cfg.Keys, TimeIdx: h.cfg.Times, Rollover: h.opts.Rollover, NewVer: h.opts.NewVer}
	refObs := map[bool][]string{}
	for _, ro := range []bool{false, true} {
		d := h.tmpDir("c11ref")
		must(copyDir(h.dir, d))
		o := base
		o.Readonly = ro
		l, err := kOpen(d, o)
		if err != nil {
			os.RemoveAll(d)
			h.abort("c11-ref-open:" + errClass(err))
			return
		}
		refObs[ro] = observe(l, oo)
		kClose(l)
		os.RemoveAll(d)
	}
	for _, sub := range subsets {
		for _, ro := range []bool{false, true} {
			h.cov.Add("evaluations", 1)
			d := h.tmpDir("c11sub")
			must(copyDir(h.dir, d))
			removeIndexFiles(d, sub, false)
			o := base
			o.Readonly = ro
			subCls := "single"
			if len(sub) == len(all) {
				subCls = "all"
			} else if len(sub) > 1 {
				subCls = "subset"
			}
			if len(sub) == 1 && sub[0] == all[len(all)-1] {
				subCls = "head-only"
			}
			l, err := kOpen(d, o)
			if err != nil {
				h.fail(failf(fmt.Sprintf("reindex:open-error:%s:ro=%v", errClass(err), ro), "Open(ro=%v) after removing index files %v failed: %s", ro, sub, errText(err)))
				os.RemoveAll(d)
				return
			}
			got := observe(l, oo)
			kClose(l)
			if why, diff := diffObs(refObs[ro], got); diff {
				call := callOf(strings.Trim(strings.SplitN(why, " vs ", 2)[0], `"`))
				h.fail(&Fail{Sig: fmt.Sprintf("reindex:answers-differ:%s:ro=%v", call, ro), What: fmt.Sprintf("after removing index files %v (ro=%v) a query answers differently: %s", sub, ro, why)})
				os.RemoveAll(d)
				return
			}
			// the rebuilt index files equal the derived ones
			a2, _, _ := auditDir(d, h.cfg)
			for _, a := range a2 {
				if a.HasIndex && a.IdxErr == nil {
					if ok, why := ref.ItemsEqual(a.IdxItems, ref.DeriveIndex(a.Spans, h.cfg), withTimes); !ok {
						h.fail(failf("reindex:rebuilt-index-differs", "segment %d index rebuilt after removal differs from the derived index: %s", a.Base, why))
						os.RemoveAll(d)
						return
					}
				}
			}
			os.RemoveAll(d)
			h.cov.Distinct("c11", fmt.Sprintf("%s|rm=%s|ro=%v|ver=%s", h.stateSig(), subCls, ro, versionsSig(audit)))
		}
	}
}

func versionsSig(audit []SegAudit) string {
	seen := map[ref.Version]bool{}
	for _, a := range audit {
		seen[a.Version] = true
	}
	var s []string
	for _, v := range []ref.Version{ref.VNone, ref.V1, ref.V2} {
		if seen[v] {
			s = append(s, v.String())
		}
	}
	return strings.Join(s, "+")
}

// closedC13: package-level Stat on the closed directory, and the disk layout audit.
func (h *Hist) closedC13() {
	audit, _, err := auditDir(h.dir, h.cfg)
	if err != nil {
		return
	}
	n := 0
	allIdx := true
	for _, a := range audit {
		h.cov.Add("evaluations", 1)
		if !a.HeaderOK || !a.Clean {
			h.fail(failf("audit:log-not-clean", "segment %d log is not a back-to-back sequence of records of the documented layout", a.Base))
			return
		}
		// re-encoding the decoded messages gives the same bytes (layout is exactly the documented one)
		if a.Version != ref.VNone {
			if enc := ref.EncodeLog(a.Msgs, a.Version); !bytes.Equal(enc, a.LogBytes) {
				h.fail(failf("audit:log-bytes", "segment %d: re-encoding its messages with the reference codec gives different bytes", a.Base))
				return
			}
		}
		n += len(a.Msgs)
		if !a.HasIndex {
			allIdx = false
		}
	}
	if f := compareSeq(concatAudit(audit), h.model.Live); f != nil {
		f.Sig = "audit:" + f.Sig
		h.fail(f)
		return
	}
	if !allIdx {
		return
	}
	st, err := klevdb.Stat(h.path(), h.opts.K())
	if err != nil {
		h.fail(failf("pkgstat:error:"+errClass(err), "klevdb.Stat(dir) failed: %s", errText(err)))
		return
	}
	nl, total := dirSizes(h.dir)
	if st.Messages != n || st.Size != total || st.Segments != nl {
		h.fail(failf("pkgstat:mismatch", "klevdb.Stat(dir)=%+v, files say segments=%d messages=%d size=%d", st, nl, n, total))
	}
}

func concatAudit(audit []SegAudit) []ref.Msg {
	var out []ref.Msg
	for _, a := range audit {
		out = append(out, a.Msgs...)
	}
	return out
}

// closedC17: mixed-version directory behaves exactly like its single-version migrations.
func (h *Hist) closedC17() {
	audit, _, err := auditDir(h.dir, h.cfg)
	if err != nil || len(audit) == 0 {
		return
	}
	for _, a := range audit {
		if !a.Clean {
			h.fail(failf("audit:log-not-clean", "segment %d log does not parse completely", a.Base))
			return
		}
	}
	if f := compareSeq(concatAudit(audit), h.model.Live); f != nil {
		f.Sig = "audit:" + f.Sig
		h.fail(f)
		return
	}
	oo := ObsOpts{Keys: h.gen.allKeys(), Times: timeSweep(h.model, 40), MaxOff: h.model.Next + 2}
	if !h.cfg.Keys {
		oo.Keys = oo.Keys[:1]
	}
	if !h.cfg.Times || !h.everNonDec {
		oo.Times = oo.Times[:1]
	}
	base := OpenOpts{KeyIndex: h.cfg.Keys, TimeIdx: h.cfg.Times, Rollover: h.opts.Rollover, NewVer: h.opts.NewVer}
	var obs [3][]string
	for i, target := range []string{"", "migrate1", "migrate2"} {
		d := h.tmpDir("c17")
		must(copyDir(h.dir, d))
		if target != "" {
			v := klevdb.V1
			if target == "migrate2" {
				v = klevdb.V2
			}
			if err := guard(func() error { return klevdb.Migrate(d, base.K(), v) }); err != nil {
				h.fail(failf("migrate:error:"+errClass(err), "Migrate(copy, %s) failed: %s", target, errText(err)))
				os.RemoveAll(d)
				return
			}
		}
		l, err := kOpen(d, base)
		if err != nil {
			if i == 0 {
				h.abort("c17-ref-open:" + errClass(err))
			} else {
				h.fail(failf("migrate:open-error:"+errClass(err), "Open after Migrate(%s) failed: %s", target, errText(err)))
			}
			os.RemoveAll(d)
			return
		}
		obs[i] = observe(l, oo)
		kClose(l)
		os.RemoveAll(d)
	}
	h.cov.Add("evaluations", 2)
	for i := 1; i < 3; i++ {
		if why, diff := diffObs(obs[0], obs[i]); diff {
			call := callOf(strings.Trim(strings.SplitN(why, " vs ", 2)[0], `"`))
			h.fail(&Fail{Sig: fmt.Sprintf("mixed-vs-single:%s", call), What: fmt.Sprintf("the directory (versions %s) and its migration to V%d answer differently: %s", versionsSig(audit), i, why)})
			return
		}
	}
	h.cov.Distinct("c17", fmt.Sprintf("diff|%s|%s", h.stateSig(), versionsSig(audit)))
}

// ---------------------------------------------------------------------------------------
// C20 backup

func (h *Hist) doBackup(op *Op) {
	// state for repeated backups lives in the directory <scratch>/<id>-backup
	dst := h.bkDir()
	fresh := false
	if _, err := os.Stat(dst); err != nil {
		fresh = true
	}
	// a backup is a snapshot: whatever happened to the source since, the previous backup must still
	// answer as it did right after its call
	if !h.recheckBackup(dst) {
		return
	}
	// repeated backups are only specified while the source has only been appended to
	if !fresh && h.dirtySinceBackup() {
		os.RemoveAll(dst)
		fresh = true
	}
	srcBefore := mustSnap(h.dir)
	// the source's answers at the time of the call
	oo := ObsOpts{Keys: h.gen.allKeys(), Times: timeSweep(h.model, 30), MaxOff: h.model.Next + 2, WithSize: true}
	if !h.cfg.Keys {
		oo.Keys = oo.Keys[:1]
	}
	if !h.cfg.Times || !h.everNonDec {
		oo.Times = oo.Times[:1]
	}
	var err error
	if op.Variant == "method" {
		if e := os.MkdirAll(dst, 0o700); e != nil {
			return
		}
		err = kBackup(h.log, dst)
	} else if op.Variant == "method-ro" {
		// Log.Backup through a read-only handle: the writer is closed around it
		if e := os.MkdirAll(dst, 0o700); e != nil {
			return
		}
		if cerr := kClose(h.log); cerr != nil {
			h.log = nil
			h.callErr("close", "close", cerr, true)
			return
		}
		h.log = nil
		ro := h.opts
		ro.Readonly, ro.Create, ro.Eager, ro.Check, ro.Recover = true, false, false, false, false
		rl, oerr := kOpen(h.path(), ro)
		if oerr != nil {
			h.abort("backup-ro-open:" + errClass(oerr))
			return
		}
		err = kBackup(rl, dst)
		kClose(rl)
		if !h.open(h.opts, false) {
			return
		}
		h.cov.Add("backups_through_readonly_handle", 1)
	} else {
		// package-level Backup works on a closed source as well as an open one; use the closed form
		// half of the time by closing and reopening around it
		err = guard(func() error { return klevdb.Backup(h.path(), dst) })
	}
	if err != nil {
		h.fail(failf("backup:error:"+errClass(err), "Backup(%s) failed: %s", op.Variant, errText(err)))
		return
	}
	srcObs := observe(h.log, oo)
	srcAfterObs := mustSnap(h.dir)
	_ = srcAfterObs
	h.cov.Add("evaluations", 1)
	// source unchanged by the backup itself (compare before the observation, which may lazily rebuild indexes)
	if err := guard(func() error { return klevdb.Check(dst, h.opts.K()) }); err != nil && (!h.cfg.Times || h.everNonDec) {
		h.fail(failf("backup:check-fails:"+errClass(err), "Check of the backup failed: %s", errText(err)))
		return
	}
	// the target under its own name (the reopen below works on a copy with a plain name)
	if st, err := klevdb.Stat(dst, h.opts.K()); err != nil || st.Messages != len(h.model.Live) {
		h.fail(failf("backup:stat-of-target", "Stat of the backup directory %q reports %d messages (err=%s), the source has %d live messages", filepath.Base(dst), st.Messages, errText(err), len(h.model.Live)))
		return
	}
	o := OpenOpts{KeyIndex: h.cfg.Keys, TimeIdx: h.cfg.Times, Rollover: h.opts.Rollover, NewVer: h.opts.NewVer}
	bdir := h.tmpDir("bkopen")
	must(copyDir(dst, bdir))
	l, err := kOpen(bdir, o)
	if err != nil {
		h.fail(failf("backup:open-error:"+errClass(err), "Open of the backup failed: %s", errText(err)))
		os.RemoveAll(bdir)
		return
	}
	got := observe(l, oo)
	kClose(l)
	os.RemoveAll(bdir)
	if why, diff := diffObs(srcObs, got); diff {
		call := callOf(strings.Trim(strings.SplitN(why, " vs ", 2)[0], `"`))
		kind := "fresh"
		if !fresh {
			kind = "repeated"
		}
		h.fail(&Fail{Sig: fmt.Sprintf("backup:answers-differ:%s:%s", kind, call), What: fmt.Sprintf("the %s backup (%s) answers differently from the source: %s", kind, op.Variant, why)})
		return
	}
	h.bkObs, h.bkOO, h.bkOpts = got, oo, o
	h.markBackup()
	kind := "fresh"
	if !fresh {
		kind = "repeated"
	}
	_ = srcBefore
	h.cov.Distinct("c20", fmt.Sprintf("%s|%s|%s|%s", h.stateSig(), kind, op.Variant, versionsSigFiles(srcBefore)))
}

func versionsSigFiles(files map[string][]byte) string {
	_, vers := segVersionsOf(files)
	seen := map[ref.Version]bool{}
	for _, v := range vers {
		seen[v] = true
	}
	var s []string
	for _, v := range []ref.Version{ref.VNone, ref.V1, ref.V2} {
		if seen[v] {
			s = append(s, v.String())
		}
	}
	return strings.Join(s, "+")
}

// dirtySinceBackup: has anything but Publish/read-only ops happened since the last backup?
func (h *Hist) dirtySinceBackup() bool {
	for i := len(h.ops) - 2; i >= 0; i-- {
		switch h.ops[i].Kind {
		case "backup":
			return false
		case "publish", "sync", "stat", "gc":
		case "reopen":
			// a close/reopen leaves the log "only appended to" unless it rewrites segments (migration)
			// or swaps the directory; removing index files (derived data) is allowed on purpose: the
			// next backup then meets segments whose index file is missing in the source but present,
			// and stale, in the target
			o := h.ops[i]
			if len(o.CrashDel) > 0 || (o.Opts != nil && o.Opts.Eager) {
				return true
			}
			for _, c := range o.Closed {
				if strings.HasPrefix(c.Kind, "migrate") {
					return true
				}
			}
		default:
			return true
		}
	}
	return true
}

func (h *Hist) markBackup() {}

// recheckBackup opens (a copy of) the last backup again and compares it with the observation
// recorded right after the Backup call.
func (h *Hist) recheckBackup(dst string) bool {
	if h.bkObs == nil {
		return true
	}
	if _, err := os.Stat(dst); err != nil {
		h.bkObs = nil
		return true
	}
	bdir := h.tmpDir("bkagain")
	must(copyDir(dst, bdir))
	defer os.RemoveAll(bdir)
	l, err := kOpen(bdir, h.bkOpts)
	if err != nil {
		h.fail(failf("backup:later-open-error:"+errClass(err), "a backup that opened fine right after the call no longer opens after the source was used: %s", errText(err)))
		return false
	}
	got := observe(l, h.bkOO)
	kClose(l)
	h.cov.Add("evaluations", 1)
	if why, diff := diffObs(h.bkObs, got); diff {
		call := callOf(strings.Trim(strings.SplitN(why, " vs ", 2)[0], `"`))
		h.fail(&Fail{Sig: "backup:changed-after-the-call:" + call, What: "the backup no longer answers as it did right after the Backup call (the source was used in between): " + why})
		return false
	}
	h.bkObs = nil
	return true
}

// ---------------------------------------------------------------------------------------
// C19 read-only session inside a history

func (h *Hist) doROSession(op *Op) {
	if err := kClose(h.log); err != nil {
		h.log = nil
		h.callErr("close", "close", err, true)
		return
	}
	h.log = nil
	before := mustSnap(h.dir)
	oo := ObsOpts{Keys: h.gen.allKeys(), Times: timeSweep(h.model, 30), MaxOff: h.model.Next + 2, WithSize: false}
	if !h.cfg.Keys {
		oo.Keys = oo.Keys[:1]
	}
	if !h.cfg.Times || !h.everNonDec {
		oo.Times = oo.Times[:1]
	}
	rmIdx := h.gen.r.Chance(0.4)
	// reference: a read-write handle on a copy of the same files
	d := h.tmpDir("c19rw")
	must(copyDir(h.dir, d))
	if rmIdx {
		removeIndexFiles(d, nil, true)
		removeIndexFiles(h.dir, nil, true)
	}
	o := OpenOpts{KeyIndex: h.cfg.Keys, TimeIdx: h.cfg.Times, Rollover: h.opts.Rollover, NewVer: h.opts.NewVer}
	lrw, err := kOpen(d, o)
	if err != nil {
		os.RemoveAll(d)
		h.abort("c19-rw-open:" + errClass(err))
		return
	}
	want := observe(lrw, oo)
	kClose(lrw)
	os.RemoveAll(d)
	ro := o
	ro.Readonly = true
	ro.Typed = h.gen.r.Chance(0.4) // the read-only handle through the typed wrapper
	l, err := kOpen(h.dir, ro)
	if err != nil {
		h.fail(failf("ro:open-error:"+errClass(err), "read-only Open failed: %s", errText(err)))
		return
	}
	h.cov.Add("evaluations", 1)
	gcFirst := h.gen.r.Chance(0.5)
	if gcFirst {
		// the queries then meet unloaded segments (on an empty directory: the synthetic one)
		if err := kGC(l, 0); err != nil {
			h.fail(failf("ro:gc:"+errClass(err), "GC on a read-only handle failed: %s", errText(err)))
			kClose(l)
			return
		}
		h.cov.Add("ro_sessions_with_gc_before_queries", 1)
	}
	if len(before) == 0 {
		h.cov.Add("ro_sessions_on_empty_directory", 1)
	}
	got := observe(l, oo)
	if why, diff := diffObs(want, got); diff {
		call := callOf(strings.Trim(strings.SplitN(why, " vs ", 2)[0], `"`))
		if gcFirst {
			call += ":after-gc"
		}
		h.fail(&Fail{Sig: "ro:answers-differ:" + call, What: fmt.Sprintf("a read-only handle answers differently from a read-write handle on the same files (index files removed=%v, GC(0) before the queries=%v): %s", rmIdx, gcFirst, why)})
		kClose(l)
		return
	}
	if _, err := kPublish(l, []klevdb.Message{{Key: []byte("x")}}); errClass(err) != "ErrReadonly" {
		h.fail(failf("ro:publish:"+errClass(err), "Publish on a read-only handle: want ErrReadonly, got %s", errText(err)))
		kClose(l)
		return
	}
	for _, empty := range [][]klevdb.Message{nil, {}} {
		if _, err := kPublish(l, empty); errClass(err) != "ErrReadonly" {
			h.fail(failf("ro:publish-empty:"+errClass(err), "Publish of an empty batch on a read-only handle (typed wrapper=%v): want ErrReadonly, got %s", ro.Typed, errText(err)))
			kClose(l)
			return
		}
	}
	if _, _, err := kDelete(l, map[int64]struct{}{0: {}}); errClass(err) != "ErrReadonly" {
		h.fail(failf("ro:delete:"+errClass(err), "Delete on a read-only handle: want ErrReadonly, got %s", errText(err)))
		kClose(l)
		return
	}
	_ = kGC(l, 0)
	_, _ = kSync(l)
	if err := kClose(l); err != nil {
		h.fail(failf("ro:close-error", "Close of a read-only handle failed: %s", errText(err)))
		return
	}
	after := mustSnap(h.dir)
	for n, b := range before {
		if strings.HasSuffix(n, ".log") && !bytes.Equal(after[n], b) {
			h.fail(failf("ro:log-file-changed", "log file %s changed during a read-only session", n))
			return
		}
	}
	for n := range after {
		if strings.HasSuffix(n, ".log") {
			if _, ok := before[n]; !ok {
				h.fail(failf("ro:log-file-created", "log file %s appeared during a read-only session", n))
				return
			}
		}
	}
	lay := layoutOf(h.dir)
	h.cov.Distinct("c19", fmt.Sprintf("ro-session|%s|rmidx=%v|segs=%d", h.stateSig(), rmIdx, minInt(lay.Segs, 4)))
	if !h.open(h.opts, false) {
		return
	}
	h.observe(op, h.model, &OpResult{})
}

var _ = time.Now

// ---------------------------------------------------------------------------------------
// replay of a recorded history (the op list is re-run, not the PRNG)

func replayHistory(cfg *RunCfg, rep *Reporter, cov *Cov, raw []byte) {
	var rec struct {
		History string       `json:"history"`
		Index   int          `json:"index"`
		Cfg     ref.IndexCfg `json:"cfg"`
		Ops     []Op         `json:"ops"`
		Seed    int64        `json:"seed"`
	}
	if err := json.Unmarshal(raw, &rec); err != nil {
		fmt.Fprintln(os.Stderr, "replay:", err)
		return
	}
	prop := cfg.Property
	r := NewRand(rec.Seed, strHash(prop), int64(rec.Index))
	prof := profileFor(prop)
	h := &Hist{id: "replay", prop: prop, scratch: cfg.Scratch, cov: cov, rep: rep, tier: cfg.Tier, seed: rec.Seed, idx: rec.Index, everNonDec: true, segVer: map[int64]ref.Version{}}
	h.dir = filepath.Join(cfg.Scratch, "replay")
	h.gen = newGenState(r, prof, rec.History)
	// the key pool of the original history: every published key plus the fixed absent ones
	seen := map[string]bool{}
	h.gen.pool = nil
	for _, op := range rec.Ops {
		for _, m := range op.Msgs {
			if !seen[string(m.Key)] {
				seen[string(m.Key)] = true
				h.gen.pool = append(h.gen.pool, m.Key)
			}
		}
	}
	h.cfg = rec.Cfg
	h.model = &ref.Model{Cfg: h.cfg}
	for i := range rec.Ops {
		op := rec.Ops[i]
		h.ops = append(h.ops, op)
		fmt.Printf("replay step %d: %s\n", i, op.Short())
		if i == 0 {
			if !h.open(*op.Opts, true) {
				break
			}
			continue
		}
		if op.Kind == "reopen" && op.Note == "final" {
			h.doReopen(&op, true)
		} else {
			h.step(&op)
		}
		fmt.Printf("   model next=%d live=%v files=%v\n", h.model.Next, ref.OffsetsOf(h.model.Live), dirListing(h.dir))
		if h.failed || h.aborted != "" {
			fmt.Printf("   stopped: failed=%v aborted=%q\n", h.failed, h.aborted)
			break
		}
	}
	if h.log != nil {
		kClose(h.log)
	}
}
