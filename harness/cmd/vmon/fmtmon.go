package main

import (
	"bytes"
	"fmt"
	"math"
	"os"
	"path/filepath"
	"time"

	"github.com/klev-dev/klevdb"
	"github.com/klev-dev/klevdb/pkg/index"
	"github.com/klev-dev/klevdb/pkg/message"

	"verifharness/ref"
)

// fmtmon: codec differential monitor (C13). Four paths:
//   W  klevdb writer   -> bytes == reference encoder, positions back to back
//   RF reference bytes -> klevdb file reader  (message.OpenReader)
//   RM reference bytes -> klevdb mmap reader  (message.OpenReaderMem)
//   IX index writer/reader/NewItem vs reference index codec
//   OP a directory assembled purely by the reference codec -> klevdb.Open + queries

func init() {
	engines["fmtmon"] = func(cfg *RunCfg, rep *Reporter, cov *Cov, ev *Evidence) {
		runFmtmon(cfg, rep, cov)
		// the Stat/Size/layout clauses over histmon states
		runHistmon(cfg, rep, cov)
		fillHistEvidence(cfg, ev, cov)
		ev.Coverage["distinct_nontrivial"] = int64(cov.SetSize("c13") + cov.SetSize("fmt"))
		ev.Coverage["fmt_cases"] = cov.Get("fmt.cases")
		ev.Coverage["fmt_messages"] = cov.Get("fmt.messages")
		ev.Coverage["fmt_paths"] = cov.Counts("fmt.path.")
		ev.Coverage["fmt_distinct_classes"] = int64(cov.SetSize("fmt"))
		ev.Coverage["hist_distinct_classes"] = int64(cov.SetSize("c13"))
	}
}

func kver(v ref.Version) message.Version {
	if v == ref.V1 {
		return message.V1
	}
	return message.V2
}

func kiver(v ref.Version) index.Version {
	if v == ref.V1 {
		return index.V1
	}
	return index.V2
}

var fmtTimes = []int64{0, 1, -1, 999_999, 1_000_000, -1_000_000, baseTime, 1 << 40, -(1 << 40), math.MaxInt64, math.MinInt64, math.MaxInt64 - 1, math.MinInt64 + 1, 253402300799_999_999}

func lenClass(n int) string {
	switch {
	case n == 0:
		return "0"
	case n == 1:
		return "1"
	case n < 16:
		return "<16"
	case n < 256:
		return "<256"
	case n <= 300:
		return "<=300"
	}
	return "large"
}

func timeClassFmt(t int64) string {
	switch {
	case t == 0:
		return "epoch"
	case t == math.MaxInt64 || t == math.MinInt64 || t == math.MaxInt64-1 || t == math.MinInt64+1:
		return "extreme"
	case t < 0:
		return "negative"
	}
	return "positive"
}

type fmtCase struct {
	ver  ref.Version
	cfg  ref.IndexCfg
	base int64
	msgs []ref.Msg
	tag  string
}

func genFmtCases(seed int64, tier string, scale float64) []fmtCase {
	r := NewRand(seed, 13)
	var cases []fmtCase
	bases := []int64{0, 1, 7, 1 << 31, 1 << 62}
	mk := func(kl, vl int, t int64, nilK, nilV bool) ref.Msg {
		m := ref.Msg{T: t}
		if kl > 0 {
			m.Key = r.Bytes(kl)
		} else if !nilK {
			m.Key = []byte{}
		}
		if vl > 0 {
			m.Value = r.Bytes(vl)
		} else if !nilV {
			m.Value = []byte{}
		}
		return m
	}
	addCase := func(tag string, msgs []ref.Msg) {
		for _, v := range []ref.Version{ref.V1, ref.V2} {
			base := pick(r, bases)
			ms := make([]ref.Msg, len(msgs))
			for i, m := range msgs {
				m.Offset = base + int64(i)*int64(1+r.Intn(2))
				if i > 0 && m.Offset <= ms[i-1].Offset {
					m.Offset = ms[i-1].Offset + 1
				}
				ms[i] = m
			}
			cases = append(cases, fmtCase{ver: v, cfg: pick(r, allCfgs), base: base, msgs: ms, tag: tag})
		}
	}
	// axis 1: key length 0..300 exhaustively x sampled value lengths
	step := 1
	if tier == "quick" {
		step = 3
	}
	for kl := 0; kl <= 300; kl += step {
		var msgs []ref.Msg
		for i := 0; i < 3; i++ {
			msgs = append(msgs, mk(kl, r.Intn(301), pick(r, fmtTimes)+int64(r.Intn(3)), r.Bool(), r.Bool()))
		}
		addCase("keylen", msgs)
	}
	for vl := 0; vl <= 300; vl += step {
		var msgs []ref.Msg
		for i := 0; i < 3; i++ {
			msgs = append(msgs, mk(r.Intn(301), vl, pick(r, fmtTimes)+int64(r.Intn(3)), r.Bool(), r.Bool()))
		}
		addCase("vallen", msgs)
	}
	// every time class with empty and small payloads
	for _, t := range fmtTimes {
		addCase("time", []ref.Msg{mk(0, 0, t, true, true), mk(3, 5, t, false, false), mk(0, 9, t, false, true)})
	}
	// a few large
	// ... and the largest message the writer accepts: key + value exactly at the format's 64 MiB bound
	larges := [][2]int{{0, 64 << 10}, {64 << 10, 0}, {1 << 10, 1 << 20}, {3, 64<<20 - 3}}
	if tier == "thorough" {
		larges = append(larges, [2]int{1 << 20, 1 << 20}, [2]int{300, 8 << 20})
	}
	for _, l := range larges {
		addCase("large", []ref.Msg{mk(l[0], l[1], baseTime, false, false), mk(1, 1, baseTime+1, false, false)})
	}
	// many small messages: index files around chunk/page-size boundaries of every item layout
	// (64 KiB of 16-, 24- and 32-byte items: 4096, 2730.67, 2048)
	for _, n := range []int{127, 128, 129, 169, 170, 171, 172, 255, 256, 257, 340, 341, 342, 511, 512, 513, 1023, 1025, 2047, 2049, 2730, 2731, 4097, 5461, 5462, 8200} {
		var msgs []ref.Msg
		t := baseTime
		for j := 0; j < n; j++ {
			t += int64(r.Intn(3))
			msgs = append(msgs, mk(r.Intn(3), r.Intn(4), t, false, false))
		}
		for _, cfg := range allCfgs {
			base := pick(r, bases)
			ms := make([]ref.Msg, len(msgs))
			for i, m := range msgs {
				m.Offset = base + int64(i)
				ms[i] = m
			}
			cases = append(cases, fmtCase{ver: ref.Version(1 + n%2), cfg: cfg, base: base, msgs: ms, tag: "many"})
		}
	}
	// random multi-message files
	n := int(400 * scale)
	if tier == "thorough" {
		n = int(20000 * scale)
	}
	for i := 0; i < n; i++ {
		k := 1 + r.Intn(12)
		var msgs []ref.Msg
		t := pick(r, fmtTimes[:9])
		for j := 0; j < k; j++ {
			kl, vl := r.Intn(40), r.Intn(120)
			if r.Chance(0.2) {
				kl = 0
			}
			if r.Chance(0.2) {
				vl = 0
			}
			t += int64(r.Intn(5)) - 1
			msgs = append(msgs, mk(kl, vl, t, r.Bool(), r.Bool()))
		}
		addCase("random", msgs)
	}
	return cases
}

func runFmtmon(cfg *RunCfg, rep *Reporter, cov *Cov) {
	cases := genFmtCases(cfg.Seed, cfg.Tier, cfg.Scale)
	parallel(len(cases), cfg.Workers, func(i int) {
		c := cases[i]
		dir := filepath.Join(cfg.Scratch, fmt.Sprintf("fmt%d", i))
		os.MkdirAll(dir, 0o700)
		defer os.RemoveAll(dir)
		if f := fmtOne(c, dir, cov); f != nil {
			rep.Report(Violation{Property: "C13", Sig: "fmtmon|" + f.Sig, What: f.What,
				Replay: map[string]any{"case": i, "tag": c.tag, "version": c.ver.String(), "cfg": c.cfg.String(), "base": c.base, "messages": msgSummaries(c.msgs), "seed": cfg.Seed}})
		}
		cov.Add("fmt.cases", 1)
		cov.Add("fmt.messages", int64(len(c.msgs)))
		cov.Add("evaluations", 1)
		if i%97 == 0 {
			cov.Sample("fmt-"+c.tag, map[string]any{"fmt_case": c.tag, "version": c.ver.String(), "cfg": c.cfg.String(), "base": c.base, "messages": msgSummaries(c.msgs)})
		}
	})
}

func msgSummaries(ms []ref.Msg) []string {
	var out []string
	for _, m := range ms {
		out = append(out, fmt.Sprintf("off=%d t=%d klen=%d(nil=%v) vlen=%d(nil=%v)", m.Offset, m.T, len(m.Key), m.Key == nil, len(m.Value), m.Value == nil))
	}
	return out
}

func fmtOne(c fmtCase, dir string, cov *Cov) *Fail {
	vs := c.ver.String()
	logName, idxName := ref.SegName(c.base)
	// ---- W: klevdb writer vs reference encoder
	wpath := filepath.Join(dir, "w-"+logName)
	w, err := message.OpenWriter(wpath, c.base, kver(c.ver))
	if err != nil {
		return failf("writer:open-error", "message.OpenWriter(%s): %v", vs, err)
	}
	want := ref.EncodeLog(nil, c.ver)
	var positions []int64
	withNS := func(m ref.Msg, i int) klevdb.Message {
		km := fromRef(m)
		if m.T < math.MaxInt64-1 && m.T > math.MinInt64+1 {
			km.Time = km.Time.Add(time.Duration((i*337 + 501) % 1000)) // sub-microsecond part: the layout keeps microseconds
		}
		return km
	}
	for mi, m := range c.msgs {
		pos, err := w.Write(withNS(m, mi))
		if err != nil {
			return failf("writer:write-error", "Write: %v", err)
		}
		if pos != int64(len(want)) {
			w.Close()
			return failf("writer:position:"+vs, "writer reported position %d for offset %d, records laid back to back start at %d", pos, m.Offset, len(want))
		}
		positions = append(positions, pos)
		want = ref.EncodeRecord(want, m, c.ver)
		if sz := message.Size(fromRef(m), kver(c.ver)); sz != int64(ref.RecordSize(m, c.ver)) {
			w.Close()
			return failf("size:record:"+vs, "message.Size=%d, documented record size %d", sz, ref.RecordSize(m, c.ver))
		}
		cov.Distinct("fmt", fmt.Sprintf("W|%s|k=%s|v=%s|t=%s", vs, lenClass(len(m.Key)), lenClass(len(m.Value)), timeClassFmt(m.T)))
	}
	if w.Size() != int64(len(want)) {
		w.Close()
		return failf("writer:size:"+vs, "writer Size()=%d, documented layout has %d bytes", w.Size(), len(want))
	}
	if err := w.SyncAndClose(); err != nil {
		return failf("writer:close-error", "%v", err)
	}
	got, _ := os.ReadFile(wpath)
	if !bytes.Equal(got, want) {
		i := 0
		for i < len(got) && i < len(want) && got[i] == want[i] {
			i++
		}
		return failf("writer:bytes:"+vs, "bytes written by klevdb differ from the documented %s layout at byte %d (file %d bytes, reference %d bytes)", vs, i, len(got), len(want))
	}
	cov.Add("fmt.path.writer", 1)
	// ---- RF / RM: reference bytes through klevdb readers
	rpath := filepath.Join(dir, logName)
	if err := os.WriteFile(rpath, want, 0o600); err != nil {
		return nil
	}
	for _, kind := range []string{"file", "mmap"} {
		var rd *message.Reader
		var err error
		if kind == "file" {
			rd, err = message.OpenReader(rpath, c.base)
		} else {
			rd, err = message.OpenReaderMem(rpath, c.base)
		}
		if err != nil {
			return failf("reader:open-error:"+kind+":"+vs, "opening a reference-encoded %s file with the %s reader failed: %v", vs, kind, err)
		}
		if len(c.msgs) > 0 || c.ver == ref.V2 {
			if rv := rd.Version(); rv != kver(c.ver) {
				rd.Close()
				return failf("reader:version:"+kind+":"+vs, "%s reader detected version %v for a reference %s file", kind, rv, vs)
			}
		}
		pos := rd.InitialPosition()
		for i, m := range c.msgs {
			if pos != positions[i] {
				rd.Close()
				return failf("reader:position:"+kind+":"+vs, "reader position %d, writer position %d", pos, positions[i])
			}
			gm, next, err := rd.Read(pos)
			if err != nil {
				rd.Close()
				return failf("reader:read-error:"+kind+":"+vs, "%s reader failed on reference-encoded record %d (%s): %v", kind, i, m, err)
			}
			if !toRef(gm).Equal(m) {
				rd.Close()
				return failf("reader:content:"+kind+":"+vs, "%s reader returned %v for reference-encoded %v", kind, toRef(gm), m)
			}
			if g2, err := rd.Get(pos); err != nil || !toRef(g2).Equal(m) {
				rd.Close()
				return failf("reader:get:"+kind+":"+vs, "%s reader Get(%d) = %v, %v", kind, pos, toRef(g2), err)
			}
			pos = next
			cov.Distinct("fmt", fmt.Sprintf("R%s|%s|k=%s|v=%s|t=%s", kind, vs, lenClass(len(m.Key)), lenClass(len(m.Value)), timeClassFmt(m.T)))
		}
		if pos != int64(len(want)) {
			rd.Close()
			return failf("reader:end:"+kind+":"+vs, "after the last record the %s reader is at %d, file has %d bytes", kind, pos, len(want))
		}
		if len(c.msgs) > 0 {
			ms, err := rd.Consume(positions[0], positions[len(positions)-1], int64(len(c.msgs)+3))
			if err != nil || len(ms) != len(c.msgs) {
				rd.Close()
				return failf("reader:consume:"+kind+":"+vs, "%s reader Consume over the file returned %d messages, err=%v", kind, len(ms), err)
			}
			for i := range ms {
				if !toRef(ms[i]).Equal(c.msgs[i]) {
					rd.Close()
					return failf("reader:consume-content:"+kind+":"+vs, "%s reader Consume message %d = %v want %v", kind, i, toRef(ms[i]), c.msgs[i])
				}
			}
		}
		rd.Close()
		cov.Add("fmt.path.reader-"+kind, 1)
	}
	// ---- IX: index codec
	_, spans, _, clean, _ := ref.ParseLog(want, c.base)
	if !clean || len(spans) != len(c.msgs) {
		return failf("selfcheck:ref-parse", "reference parser does not re-read its own encoding (%d of %d records)", len(spans), len(c.msgs))
	}
	params := index.Params{Times: c.cfg.Times, Keys: c.cfg.Keys}
	wantItems := ref.DeriveIndex(spans, c.cfg)
	var kItems []index.Item
	var ts int64
	for i, m := range c.msgs {
		it := params.NewItem(withNS(m, i), positions[i], ts)
		ts = it.Timestamp
		kItems = append(kItems, it)
		if (ref.Item{Offset: it.Offset, Position: it.Position, Timestamp: it.Timestamp, KeyHash: it.KeyHash}) != wantItems[i] {
			return failf("index:newitem:"+c.cfg.String(), "NewItem gives %+v, reference derivation %+v", it, wantItems[i])
		}
	}
	if params.Size() != int64(c.cfg.ItemSize()) {
		return failf("index:itemsize", "Params.Size()=%d reference %d", params.Size(), c.cfg.ItemSize())
	}
	for _, iv := range []ref.Version{ref.V1, ref.V2} {
		ipath := filepath.Join(dir, "w-"+iv.String()+idxName)
		if err := index.Write(ipath, c.base, kiver(iv), params, kItems); err != nil {
			return failf("index:write-error", "%v", err)
		}
		gotI, _ := os.ReadFile(ipath)
		wantI := ref.EncodeIndex(wantItems, iv, c.cfg)
		if !bytes.Equal(gotI, wantI) {
			return failf("index:bytes:"+iv.String()+":"+c.cfg.String(), "index bytes written by klevdb differ from the documented %s/%s layout (%d vs %d bytes)", iv, c.cfg, len(gotI), len(wantI))
		}
		// reference-encoded index through klevdb's reader
		rip := filepath.Join(dir, "r-"+iv.String()+idxName)
		os.WriteFile(rip, wantI, 0o600)
		if iv == ref.V1 && len(wantItems) > 0 && wantItems[0].Offset != c.base {
			continue // a V1 index is recognised by its first offset equalling the base
		}
		items, err := index.Read(rip, c.base, params)
		if err != nil {
			return failf("index:read-error:"+iv.String()+":"+c.cfg.String(), "index.Read of a reference-encoded index failed: %v", err)
		}
		if len(items) != len(kItems) {
			return failf("index:read-len", "index.Read returned %d items, want %d", len(items), len(kItems))
		}
		for i := range items {
			if items[i] != kItems[i] {
				return failf("index:read-content:"+iv.String()+":"+c.cfg.String(), "index.Read item %d = %+v want %+v", i, items[i], kItems[i])
			}
		}
		sz, n, err := index.Stat(rip, c.base, params)
		if err != nil || sz != int64(len(wantI)) || n != len(kItems) {
			return failf("index:stat", "index.Stat = (%d,%d,%v), file has %d bytes and %d items", sz, n, err, len(wantI), len(kItems))
		}
		cov.Distinct("fmt", fmt.Sprintf("IX|%s|%s|n=%d", iv, c.cfg, minInt(len(kItems), 3)))
	}
	cov.Add("fmt.path.index", 1)
	// ---- OP: a directory assembled by the reference codec, opened by klevdb
	if c.tag == "large" {
		return nil
	}
	odir := filepath.Join(dir, "open")
	os.MkdirAll(odir, 0o700)
	// split into two segments when possible; second segment in the other version (mixed)
	split := len(c.msgs) / 2
	segs := [][]ref.Msg{c.msgs}
	if split > 0 {
		segs = [][]ref.Msg{c.msgs[:split], c.msgs[split:]}
	}
	for si, sm := range segs {
		v := c.ver
		if si == 1 {
			v = 3 - c.ver
		}
		b := c.base
		if len(sm) > 0 && si > 0 {
			b = sm[0].Offset
		}
		if len(sm) > 0 && sm[0].Offset != b {
			return nil
		}
		ln, in := ref.SegName(b)
		data := ref.EncodeLog(sm, v)
		os.WriteFile(filepath.Join(odir, ln), data, 0o600)
		_, sp, _, _, _ := ref.ParseLog(data, b)
		if len(sm) > 0 && (si+len(c.msgs))%2 == 0 {
			os.WriteFile(filepath.Join(odir, in), ref.EncodeIndex(ref.DeriveIndex(sp, c.cfg), v, c.cfg), 0o600)
		}
	}
	if len(c.msgs) == 0 || c.msgs[0].Offset != c.base {
		return nil
	}
	model := &ref.Model{Cfg: c.cfg, Live: c.msgs, Next: c.msgs[len(c.msgs)-1].Offset + 1}
	for _, ro := range []bool{true, false} {
		l, err := kOpen(odir, OpenOpts{KeyIndex: c.cfg.Keys, TimeIdx: c.cfg.Times, Readonly: ro, Rollover: 1 << 20})
		if err != nil {
			return failf(fmt.Sprintf("open-ref-dir:error:%s:ro=%v", errClass(err), ro), "Open(ro=%v) of a directory written by the reference codec (%s then %s) failed: %s", ro, c.ver, 3-c.ver, errText(err))
		}
		got, end, f := scanLog(l, 5, len(c.msgs)+16)
		if f == nil {
			f = compareSeq(got, c.msgs)
		}
		if f == nil && end != model.Next {
			f = failf("scan:end", "scan ended at %d want %d", end, model.Next)
		}
		if f == nil && len(c.msgs) < 40 {
			for _, m := range c.msgs {
				if f = getCell(l, model, m.Offset); f != nil {
					break
				}
			}
		}
		if f == nil && c.cfg.Keys {
			seen := map[string]bool{}
			for _, m := range c.msgs {
				if !seen[string(m.Key)] {
					seen[string(m.Key)] = true
					if f = getByKeyCell(l, model, m.Key); f != nil {
						break
					}
				}
			}
		}
		allNonNeg := true
		for _, m := range c.msgs {
			if m.T < 0 {
				allNonNeg = false // index timestamps are a running maximum that starts at 0
			}
		}
		if f == nil && c.cfg.Times && ref.TimesNonDecreasing(c.msgs) && allNonNeg {
			for _, m := range c.msgs {
				if f = getByTimeCell(l, model, m.T); f != nil {
					break
				}
			}
		}
		if f == nil {
			f = statCell(l, model, odir)
		}
		kClose(l)
		if f != nil {
			f.Sig = fmt.Sprintf("open-ref-dir:%s:ro=%v", f.Sig, ro)
			f.What = "directory written by the reference codec: " + f.What
			return f
		}
	}
	cov.Add("fmt.path.open-ref-dir", 1)
	cov.Distinct("fmt", fmt.Sprintf("OP|%s|%s|segs=%d", vs, c.cfg, len(segs)))
	return nil
}

var _ = klevdb.OffsetOldest
var _ = time.Now
