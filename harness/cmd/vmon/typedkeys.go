package main

import (
	"fmt"
	"os"
	"path/filepath"
	"time"

	"github.com/klev-dev/klevdb"
)

// typedkeys: the typed wrapper's key calls with codecs that honour the 'empty' flag (StringOptCodec:
// "" and "no key" are different keys; VarintCodec: 0 and "no key"). The oracle is a model over
// (key, empty) pairs: GetByKey, OffsetByKey and the ConsumeByKey iteration of every pair agree with
// the typed scan, and the typed scan with what was published. Part of the C09 check.

type tkMsg struct {
	off   int64
	key   string
	empty bool
	val   string
}

func runTypedKeys(cfg *RunCfg, rep *Reporter, cov *Cov) {
	n := 120
	if cfg.Tier == "thorough" {
		n = 3000
	}
	n = maxInt(8, int(float64(n)*cfg.Scale))
	parallel(n, cfg.Workers, func(i int) { typedKeysOne(cfg, rep, cov, i) })
	cov.Add("typedkeys.histories", int64(n))
}

func typedKeysOne(cfg *RunCfg, rep *Reporter, cov *Cov, idx int) {
	r := NewRand(cfg.Seed, 909, int64(idx))
	dir := filepath.Join(cfg.Scratch, fmt.Sprintf("tk%d", idx))
	defer os.RemoveAll(dir)
	opts := klevdb.Options{CreateDirs: true, KeyIndex: true, TimeIndex: idx%2 == 0, Rollover: pick(r, []int64{120, 400, 1 << 20})}
	if idx%3 == 1 {
		opts.Version.NewSegmentsVersion = klevdb.V1
	}
	blocking := idx%4 == 3
	var l klevdb.TLog[string, string]
	err := guard(func() error {
		var e error
		if blocking {
			var bl klevdb.TBlockingLog[string, string]
			bl, e = klevdb.OpenTBlocking[string, string](dir, opts, klevdb.StringOptCodec, klevdb.StringOptCodec)
			l = bl
		} else {
			l, e = klevdb.OpenT[string, string](dir, opts, klevdb.StringOptCodec, klevdb.StringOptCodec)
		}
		return e
	})
	if err != nil {
		rep.Inconclusive("typedkeys: open failed: " + errText(err))
		return
	}
	defer func() { guard(func() error { return l.Close() }) }()
	fail := func(sig, format string, a ...any) {
		rep.Report(Violation{Property: "C09", Sig: "typedkeys|" + sig, What: fmt.Sprintf(format, a...), Replay: map[string]any{"history": idx, "seed": cfg.Seed, "blocking_wrapper": blocking}})
	}
	type kk struct {
		key   string
		empty bool
	}
	pool := []kk{{"", true}, {"", false}, {"a", false}, {"b", false}, {"null", false}, {`""`, false}}
	var model []tkMsg
	var next int64
	t := baseTime
	steps := 10 + r.Intn(25)
	for s := 0; s < steps; s++ {
		switch {
		case r.Chance(0.75) || len(model) == 0:
			nb := 1 + r.Intn(3)
			batch := make([]klevdb.TMessage[string, string], nb)
			for j := range batch {
				k := pick(r, pool)
				t += int64(r.Intn(2))
				batch[j] = klevdb.TMessage[string, string]{Key: k.key, KeyEmpty: k.empty, Value: fmt.Sprintf("v%d.%d", s, j), Time: time.UnixMicro(t).UTC()}
			}
			var nx int64
			if err := guard(func() error { var e error; nx, e = l.Publish(batch); return e }); err != nil || nx != next+int64(nb) {
				fail("publish", "typed Publish of %d messages returned %d, %v (next was %d)", nb, nx, err, next)
				return
			}
			for j, m := range batch {
				model = append(model, tkMsg{off: next + int64(j), key: m.Key, empty: m.KeyEmpty, val: m.Value})
			}
			next = nx
		default:
			// delete one live message (through the typed wrapper)
			victim := model[r.Intn(len(model))]
			var del []klevdb.TMessage[string, string]
			if err := guard(func() error {
				var e error
				del, _, e = l.Delete(map[int64]struct{}{victim.off: {}})
				return e
			}); err != nil {
				fail("delete:error", "typed Delete(%d) failed: %s", victim.off, errText(err))
				return
			}
			if len(del) == 1 {
				if del[0].Key != victim.key || del[0].KeyEmpty != victim.empty || del[0].Value != victim.val {
					fail("delete:content", "typed Delete(%d) reported key=%q empty=%v, published key=%q empty=%v", victim.off, del[0].Key, del[0].KeyEmpty, victim.key, victim.empty)
					return
				}
				var nm []tkMsg
				for _, m := range model {
					if m.off != victim.off {
						nm = append(nm, m)
					}
				}
				model = nm
			}
		}
		if s%3 != 2 && s != steps-1 {
			continue
		}
		cov.Add("evaluations", 1)
		// typed scan == model
		var scan []klevdb.TMessage[string, string]
		off := klevdb.OffsetOldest
		for it := 0; it < len(model)+8; it++ {
			var ms []klevdb.TMessage[string, string]
			var nx int64
			if err := guard(func() error { var e error; nx, ms, e = l.Consume(off, 4); return e }); err != nil {
				fail("scan:error", "typed Consume(%d) failed: %s", off, errText(err))
				return
			}
			scan = append(scan, ms...)
			if len(ms) == 0 && nx == next {
				break
			}
			off = nx
		}
		if len(scan) != len(model) {
			fail("scan:length", "typed scan returned %d messages, %d are live", len(scan), len(model))
			return
		}
		for i, m := range scan {
			w := model[i]
			if m.Offset != w.off || m.Key != w.key || m.KeyEmpty != w.empty || m.Value != w.val {
				fail("scan:content", "typed scan shows offset %d key=%q empty=%v value=%q, published offset %d key=%q empty=%v value=%q", m.Offset, m.Key, m.KeyEmpty, m.Value, w.off, w.key, w.empty, w.val)
				return
			}
		}
		// every (key, empty) pair: GetByKey, OffsetByKey, ConsumeByKey
		for _, k := range append(pool, kk{"absent", false}) {
			var want []tkMsg
			for _, m := range model {
				if m.key == k.key && m.empty == k.empty {
					want = append(want, m)
				}
			}
			var gm klevdb.TMessage[string, string]
			gerr := guard(func() error { var e error; gm, e = l.GetByKey(k.key, k.empty); return e })
			var goff int64
			oerr := guard(func() error { var e error; goff, e = l.OffsetByKey(k.key, k.empty); return e })
			cov.Distinct("c09", fmt.Sprintf("typedkeys|empty=%v|zero=%v|present=%v", k.empty, k.key == "", len(want) > 0))
			if len(want) == 0 {
				if errClass(gerr) != "ErrNotFound" || errClass(oerr) != "ErrNotFound" {
					fail("absent", "typed GetByKey/OffsetByKey(%q, empty=%v) with no such live message: want ErrNotFound twice, got %s / %s (offset %d)", k.key, k.empty, errText(gerr), errText(oerr), goff)
					return
				}
			} else {
				last := want[len(want)-1]
				if gerr != nil || gm.Offset != last.off || gm.Key != k.key || gm.KeyEmpty != k.empty {
					fail("getbykey", "typed GetByKey(%q, empty=%v): want offset %d, got offset %d key=%q empty=%v err=%s", k.key, k.empty, last.off, gm.Offset, gm.Key, gm.KeyEmpty, errText(gerr))
					return
				}
				if oerr != nil || goff != last.off {
					fail("offsetbykey", "typed OffsetByKey(%q, empty=%v): want %d (what GetByKey with the same arguments returns), got %d err=%s", k.key, k.empty, last.off, goff, errText(oerr))
					return
				}
			}
			var got []klevdb.TMessage[string, string]
			off := klevdb.OffsetOldest
			for it := 0; it < len(model)+8; it++ {
				var ms []klevdb.TMessage[string, string]
				var nx int64
				if err := guard(func() error { var e error; nx, ms, e = l.ConsumeByKey(k.key, k.empty, off, 2); return e }); err != nil {
					fail("consumebykey:error", "typed ConsumeByKey(%q, empty=%v, %d) failed: %s", k.key, k.empty, off, errText(err))
					return
				}
				got = append(got, ms...)
				if len(ms) == 0 && (nx >= next || nx <= off) {
					break
				}
				off = nx
			}
			if len(got) != len(want) {
				fail("consumebykey:set", "typed ConsumeByKey(%q, empty=%v) iteration returned %d messages, %d live messages have that key", k.key, k.empty, len(got), len(want))
				return
			}
			for i := range got {
				if got[i].Offset != want[i].off || got[i].Key != k.key || got[i].KeyEmpty != k.empty {
					fail("consumebykey:content", "typed ConsumeByKey(%q, empty=%v) returned offset %d key=%q empty=%v, want offset %d", k.key, k.empty, got[i].Offset, got[i].Key, got[i].KeyEmpty, want[i].off)
					return
				}
			}
		}
	}
}
