package main

import (
	"context"
	"encoding/json"
	"fmt"
	"os"
	"path/filepath"
	"sort"
	"strings"
	"sync"
	"sync/atomic"
	"time"

	"github.com/klev-dev/klevdb"

	"verifharness/ref"
)

// crash-workload: the child process that crashmon records under strace. It runs a symbolic
// script single-goroutine against a real log directory and writes API-level markers
// ("B <json>\n" before a call, "E <json>\n" after it) with write(2) to the marker file, so markers
// and file-system syscalls are totally ordered in the strace log.

type WLStep struct {
	Kind   string    `json:"kind"` // open publish delete sync close reopen migrate recover gc
	N      int       `json:"n,omitempty"`
	Target string    `json:"target,omitempty"` // delete target (symbolic)
	Opts   *OpenOpts `json:"opts,omitempty"`
	V      int       `json:"v,omitempty"`
}

type WLSpec struct {
	Seed  int64    `json:"seed"`
	Steps []WLStep `json:"steps"`
	Name  string   `json:"name"`
	Base  int      `json:"base,omitempty"` // index of the first step (a workload continued by a second process)
	Seq   int      `json:"seq,omitempty"`  // message counter to continue from
}

type WLBegin struct {
	I       int       `json:"i"`
	Kind    string    `json:"kind"`
	Target  string    `json:"target,omitempty"`
	Msgs    []PubMsg  `json:"msgs,omitempty"`
	Offsets []int64   `json:"offsets,omitempty"`
	Opts    *OpenOpts `json:"opts,omitempty"`
	V       int       `json:"v,omitempty"`
}

type WLEnd struct {
	I       int     `json:"i"`
	Err     string  `json:"err,omitempty"`
	Next    int64   `json:"next"`
	Deleted []int64 `json:"deleted,omitempty"`
	Times   []int64 `json:"times,omitempty"`
}

func init() {
	subcommands["crash-workload"] = crashWorkload
}

func crashWorkload(args []string) int {
	if len(args) < 3 {
		fmt.Fprintln(os.Stderr, "usage: crash-workload <dir> <marker> <spec.json>")
		return 2
	}
	dir, markerPath, specPath := args[0], args[1], args[2]
	b, err := os.ReadFile(specPath)
	if err != nil {
		fmt.Fprintln(os.Stderr, err)
		return 2
	}
	var spec WLSpec
	if err := json.Unmarshal(b, &spec); err != nil {
		fmt.Fprintln(os.Stderr, err)
		return 2
	}
	mf, err := os.OpenFile(markerPath, os.O_WRONLY|os.O_APPEND|os.O_CREATE, 0o600)
	if err != nil {
		fmt.Fprintln(os.Stderr, err)
		return 2
	}
	mark := func(prefix string, x any) {
		jb, _ := json.Marshal(x)
		mf.Write(append(append([]byte(prefix+" "), jb...), '\n'))
	}
	r := NewRand(spec.Seed, 55)
	var l klevdb.Log
	var opts OpenOpts
	// the child's own bookkeeping, only used to concretise symbolic delete targets
	live := map[int64]bool{}
	var next int64
	seq := 0
	t := baseTime + int64(r.Intn(100))
	keys := [][]byte{[]byte("a"), []byte("b"), nil, []byte("cc")}
	seq = spec.Seq
	for si, st := range spec.Steps {
		i := si + spec.Base
		bm := WLBegin{I: i, Kind: st.Kind, Target: st.Target, Opts: st.Opts, V: st.V}
		em := WLEnd{I: i}
		switch st.Kind {
		case "open", "reopen":
			if l != nil {
				// reopen = close + open; the close is part of this op
			}
			mark("B", bm)
			if l != nil {
				if err := l.Close(); err != nil {
					em.Err = "close: " + err.Error()
				}
				l = nil
			}
			if em.Err == "" {
				opts = *st.Opts
				var err error
				l, err = klevdb.Open(dir, opts.K())
				if err != nil {
					em.Err = "open: " + err.Error()
				} else {
					em.Next, _ = l.NextOffset()
					if spec.Base > 0 && len(live) == 0 {
						// a continued workload: learn what is live (only used to pick delete targets)
						next = em.Next
						cur := klevdb.OffsetOldest
						for {
							nx, ms, cerr := l.Consume(cur, 32)
							if cerr != nil || len(ms) == 0 {
								break
							}
							for _, m := range ms {
								live[m.Offset] = true
							}
							cur = nx
						}
					}
				}
			}
			mark("E", em)
		case "close":
			mark("B", bm)
			if l != nil {
				em.Next, _ = l.NextOffset()
				if err := l.Close(); err != nil {
					em.Err = err.Error()
				}
				l = nil
			}
			mark("E", em)
		case "publish":
			msgs := make([]klevdb.Message, st.N)
			for j := range msgs {
				seq++
				if r.Chance(0.6) {
					t += int64(r.Intn(3))
				}
				pm := PubMsg{Key: pick(r, keys), T: t}
				if !r.Chance(0.12) {
					pm.Value = append([]byte(fmt.Sprintf("%s.%d|", spec.Name, seq)), r.Bytes(r.Intn(40))...)
				}
				bm.Msgs = append(bm.Msgs, pm)
				msgs[j] = klevdb.Message{Key: pm.Key, Value: pm.Value, Time: time.UnixMicro(pm.T).UTC()}
			}
			mark("B", bm)
			nx, err := l.Publish(msgs)
			if err != nil {
				em.Err = err.Error()
			} else {
				em.Next = nx
				for j := range msgs {
					live[next+int64(j)] = true
				}
				next = nx
			}
			mark("E", em)
		case "delete":
			bm.Offsets = pickDeleteTarget(r, dir, live, next, st.Target)
			mark("B", bm)
			del, _, err := l.Delete(offsetSet(bm.Offsets))
			if err != nil {
				em.Err = err.Error()
			}
			for _, m := range del {
				em.Deleted = append(em.Deleted, m.Offset)
				delete(live, m.Offset)
			}
			em.Next, _ = l.NextOffset()
			mark("E", em)
		case "trimcount", "trimoffset", "compactupdates":
			// multi-segment helpers: every inner Delete gets its own B/E markers through a proxy, so
			// the crash oracle sees a sequence of ordinary deletes
			px := &markLog{Log: l, mark: mark, base: i * 100000, live: live}
			ctx := context.Background()
			var err error
			switch st.Kind {
			case "trimcount":
				_, _, err = klevdb.TrimByCountMulti(ctx, px, st.N, noBackoff)
			case "trimoffset":
				_, _, err = klevdb.TrimByOffsetMulti(ctx, px, next-int64(st.N), noBackoff)
			case "compactupdates":
				_, _, err = klevdb.CompactUpdatesMulti(ctx, px, time.UnixMicro(baseTime+1_000_000_000), noBackoff)
			}
			_ = err
		case "tear":
			// what an earlier power loss did to unsynced bytes: the newest segment's log (or index,
			// Target "index") loses its last st.N bytes. Issued while no log is open.
			mark("B", bm)
			ents, _ := os.ReadDir(dir)
			head := ""
			for _, e := range ents {
				if strings.HasSuffix(e.Name(), ".log") && len(e.Name()) == 24 && e.Name() > head {
					head = e.Name()
				}
			}
			path := filepath.Join(dir, head)
			if st.Target == "index" || st.Target == "both" {
				path = strings.TrimSuffix(path, ".log") + ".index"
			}
			if st.Target == "both" {
				// the log loses exactly its last record, the index st.N bytes (less than an item): the index
				// then holds the items of the records that are left plus a fragment
				logPath := filepath.Join(dir, head)
				data, rerr := os.ReadFile(logPath)
				var base int64
				fmt.Sscanf(head, "%020d", &base)
				_, spans, _, _, _ := ref.ParseLog(data, base)
				ifi, ierr := os.Stat(path)
				switch {
				case head == "" || rerr != nil || ierr != nil || len(spans) < 2:
					em.Err = "nothing to tear"
				default:
					if err := os.Truncate(logPath, int64(spans[len(spans)-1].Start)); err != nil {
						em.Err = err.Error()
					} else if err := os.Truncate(strings.TrimSuffix(logPath, ".log")+".index", ifi.Size()-int64(st.N)); err != nil {
						em.Err = err.Error()
					}
				}
				mark("E", em)
				continue
			}
			if fi, err := os.Stat(path); head == "" || err != nil || fi.Size()-int64(st.N) < 8 {
				em.Err = "nothing to tear"
			} else if err := os.Truncate(path, fi.Size()-int64(st.N)); err != nil {
				em.Err = err.Error()
			}
			mark("E", em)
		case "die":
			// the process ends here without Sync or Close (its file descriptors are simply dropped)
			mark("B", bm)
			mf.Close()
			os.Exit(0)
		case "sync":
			mark("B", bm)
			nx, err := l.Sync()
			if err != nil {
				em.Err = err.Error()
			}
			em.Next = nx
			mark("E", em)
		case "gc":
			mark("B", bm)
			if err := l.GC(0); err != nil {
				em.Err = err.Error()
			}
			em.Next, _ = l.NextOffset()
			mark("E", em)
		case "migrate":
			mark("B", bm)
			v := klevdb.V1
			if st.V == 2 {
				v = klevdb.V2
			}
			if err := klevdb.Migrate(dir, opts.K(), v); err != nil {
				em.Err = err.Error()
			}
			em.Next = next
			mark("E", em)
		case "recover":
			mark("B", bm)
			if err := klevdb.Recover(dir, opts.K()); err != nil {
				em.Err = err.Error()
			}
			em.Next = next
			mark("E", em)
		case "concsync":
			// st.V publishers and one syncer run concurrently; every call writes its own B/E markers
			// (ids i*100000 + sub). Used by C06 only: is what Sync returned durable?
			var wg sync.WaitGroup
			var subID atomic.Int64
			for p := 0; p < st.V; p++ {
				wg.Add(1)
				pr := NewRand(spec.Seed, 56, int64(p))
				go func(p int) {
					defer wg.Done()
					for k := 0; k < st.N; k++ {
						id := i*100000 + int(subID.Add(1))
						n := 1 + pr.Intn(3)
						b := WLBegin{I: id, Kind: "cpub"}
						msgs := make([]klevdb.Message, n)
						for j := range msgs {
							pm := PubMsg{Key: keys[pr.Intn(len(keys))], T: baseTime, Value: append([]byte(fmt.Sprintf("%s.p%d.%d.%d|", spec.Name, p, k, j)), pr.Bytes(pr.Intn(60))...)}
							b.Msgs = append(b.Msgs, pm)
							msgs[j] = klevdb.Message{Key: pm.Key, Value: pm.Value, Time: time.UnixMicro(pm.T).UTC()}
						}
						mark("B", b)
						nx, err := l.Publish(msgs)
						e := WLEnd{I: id, Next: nx}
						if err != nil {
							e.Err = err.Error()
						}
						mark("E", e)
					}
				}(p)
			}
			wg.Add(1)
			go func() {
				defer wg.Done()
				for k := 0; k < st.N*2; k++ {
					id := i*100000 + int(subID.Add(1))
					mark("B", WLBegin{I: id, Kind: "csync"})
					nx, err := l.Sync()
					e := WLEnd{I: id, Next: nx}
					if err != nil {
						e.Err = err.Error()
					}
					mark("E", e)
				}
			}()
			wg.Wait()
			next, _ = l.NextOffset()
		}
	}
	if l != nil {
		// a script should end with close; do not add unmarked file-system activity
		_ = l
	}
	mf.Close()
	return 0
}

// pickDeleteTarget concretises a symbolic delete target from the directory layout.
func pickDeleteTarget(r *Rand, dir string, live map[int64]bool, next int64, target string) []int64 {
	lay := layoutOf(dir)
	var offs []int64
	for o := range live {
		offs = append(offs, o)
	}
	sort.Slice(offs, func(i, j int) bool { return offs[i] < offs[j] })
	segs := make([][]int64, len(lay.Bases))
	for _, o := range offs {
		i := sort.Search(len(lay.Bases), func(i int) bool { return lay.Bases[i] > o }) - 1
		if i >= 0 {
			segs[i] = append(segs[i], o)
		}
	}
	var readers [][]int64
	for i := 0; i+1 < len(segs); i++ {
		if len(segs[i]) > 0 {
			readers = append(readers, segs[i])
		}
	}
	var head []int64
	if len(segs) > 0 {
		head = segs[len(segs)-1]
	}
	pickReader := func(min int) []int64 {
		var c [][]int64
		for _, s := range readers {
			if len(s) >= min {
				c = append(c, s)
			}
		}
		if len(c) == 0 {
			return nil
		}
		return c[r.Intn(len(c))]
	}
	switch target {
	case "reader-middle":
		if s := pickReader(3); s != nil {
			return []int64{s[1+r.Intn(len(s)-2)]}
		}
	case "reader-first":
		if s := pickReader(2); s != nil {
			return []int64{s[0]}
		}
	case "reader-last":
		if s := pickReader(2); s != nil {
			return []int64{s[len(s)-1]}
		}
	case "reader-all":
		if s := pickReader(1); s != nil {
			return append([]int64(nil), s...)
		}
	case "head-middle":
		if len(head) >= 3 {
			return []int64{head[1+r.Intn(len(head)-2)]}
		}
	case "head-first":
		if len(head) >= 2 {
			return []int64{head[0]}
		}
	case "head-tail":
		if len(head) >= 2 {
			return []int64{head[len(head)-1]}
		}
	case "head-first-tail":
		if len(head) >= 3 {
			return []int64{head[0], head[len(head)-1]}
		}
	case "head-all":
		if len(head) >= 1 {
			return append([]int64(nil), head...)
		}
	case "nothing":
		return []int64{next + 3}
	}
	// fallback: a random live offset (or an unassigned one)
	if len(offs) > 0 {
		return []int64{offs[r.Intn(len(offs))]}
	}
	return []int64{next}
}

// markLog wraps a Log so that every Delete issued by a multi-segment helper writes B/E markers.
type markLog struct {
	klevdb.Log
	mark func(prefix string, x any)
	base int
	n    int
	live map[int64]bool
}

func (m *markLog) Delete(offsets map[int64]struct{}) ([]klevdb.Message, int64, error) {
	m.n++
	id := m.base + m.n
	var offs []int64
	for o := range offsets {
		offs = append(offs, o)
	}
	sort.Slice(offs, func(i, j int) bool { return offs[i] < offs[j] })
	m.mark("B", WLBegin{I: id, Kind: "delete", Target: "helper", Offsets: offs})
	del, sz, err := m.Log.Delete(offsets)
	e := WLEnd{I: id}
	if err != nil {
		e.Err = err.Error()
	}
	for _, d := range del {
		e.Deleted = append(e.Deleted, d.Offset)
		delete(m.live, d.Offset)
	}
	e.Next, _ = m.Log.NextOffset()
	m.mark("E", e)
	return del, sz, err
}
