package main

import (
	"time"

	"github.com/klev-dev/klevdb"
)

// bytesCodec is the identity codec: the typed view of a log through it must be the raw view.
type bytesCodec struct{}

func (bytesCodec) Encode(t []byte, empty bool) ([]byte, error) {
	if empty {
		return nil, nil
	}
	return t, nil
}

func (bytesCodec) Decode(b []byte) ([]byte, bool, error) {
	return b, b == nil, nil
}

// typedRaw drives a log through the typed wrapper (klevdb.OpenT with the identity codec) while
// presenting klevdb.Log, so every oracle of the harness judges the typed API unchanged.
type typedRaw struct {
	t klevdb.TLog[[]byte, []byte]
}

func openTyped(dir string, opts klevdb.Options) (klevdb.Log, error) {
	t, err := klevdb.OpenT[[]byte, []byte](dir, opts, bytesCodec{}, bytesCodec{})
	if err != nil {
		return nil, err
	}
	return &typedRaw{t: t}, nil
}

func bToT(m klevdb.Message) klevdb.TMessage[[]byte, []byte] {
	return klevdb.TMessage[[]byte, []byte]{Offset: m.Offset, Time: m.Time, Key: m.Key, KeyEmpty: m.Key == nil, Value: m.Value, ValueEmpty: m.Value == nil}
}

func bFromT(t klevdb.TMessage[[]byte, []byte]) klevdb.Message {
	m := klevdb.Message{Offset: t.Offset, Time: t.Time}
	if !t.KeyEmpty {
		m.Key = t.Key
	}
	if !t.ValueEmpty {
		m.Value = t.Value
	}
	return m
}

func bFromTs(ts []klevdb.TMessage[[]byte, []byte]) []klevdb.Message {
	if ts == nil {
		return nil
	}
	out := make([]klevdb.Message, len(ts))
	for i := range ts {
		out[i] = bFromT(ts[i])
	}
	return out
}

// Publish: the typed wrapper encodes into a fresh slice, so nothing is written back to the caller. The
// harness learns assigned offsets and times from the write-back of the raw API; here they are
// reproduced (zero times are stamped before the call, offsets derived from the returned next offset),
// and it is the later reads that confirm them.
func (l *typedRaw) Publish(messages []klevdb.Message) (int64, error) {
	ts := make([]klevdb.TMessage[[]byte, []byte], len(messages))
	for i := range messages {
		if messages[i].Time.IsZero() {
			messages[i].Time = time.Now().UTC()
		}
		ts[i] = bToT(messages[i])
	}
	next, err := l.t.Publish(ts)
	if err == nil {
		for i := range messages {
			messages[i].Offset = next - int64(len(messages)) + int64(i)
		}
	}
	return next, err
}
func (l *typedRaw) NextOffset() (int64, error) { return l.t.NextOffset() }
func (l *typedRaw) Consume(offset int64, maxCount int64) (int64, []klevdb.Message, error) {
	n, ts, err := l.t.Consume(offset, maxCount)
	return n, bFromTs(ts), err
}
func (l *typedRaw) ConsumeByKey(key []byte, offset int64, maxCount int64) (int64, []klevdb.Message, error) {
	n, ts, err := l.t.ConsumeByKey(key, key == nil, offset, maxCount)
	return n, bFromTs(ts), err
}
func (l *typedRaw) Get(offset int64) (klevdb.Message, error) {
	t, err := l.t.Get(offset)
	return bFromT(t), err
}
func (l *typedRaw) GetByKey(key []byte) (klevdb.Message, error) {
	t, err := l.t.GetByKey(key, key == nil)
	return bFromT(t), err
}
func (l *typedRaw) OffsetByKey(key []byte) (int64, error) { return l.t.OffsetByKey(key, key == nil) }
func (l *typedRaw) GetByTime(start time.Time) (klevdb.Message, error) {
	t, err := l.t.GetByTime(start)
	return bFromT(t), err
}
func (l *typedRaw) OffsetByTime(start time.Time) (int64, time.Time, error) {
	return l.t.OffsetByTime(start)
}
func (l *typedRaw) Delete(offsets map[int64]struct{}) ([]klevdb.Message, int64, error) {
	ts, sz, err := l.t.Delete(offsets)
	return bFromTs(ts), sz, err
}
func (l *typedRaw) Size(m klevdb.Message) int64      { return l.t.Size(m) }
func (l *typedRaw) Stat() (klevdb.Stats, error)      { return l.t.Stat() }
func (l *typedRaw) Backup(dir string) error          { return l.t.Backup(dir) }
func (l *typedRaw) Sync() (int64, error)             { return l.t.Sync() }
func (l *typedRaw) GC(unusedFor time.Duration) error { return l.t.GC(unusedFor) }
func (l *typedRaw) Close() error                     { return l.t.Close() }
