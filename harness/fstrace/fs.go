package fstrace

import (
	"bytes"
	"fmt"
	"os"
	"path/filepath"
	"sort"
)

// File is one regular file of the in-memory file system.
type File struct {
	Data []byte
	// Synced is the number of leading bytes that are durable: set to
	// len(Data) by Fsync; a Truncate below Synced lowers it, and so does an
	// overwrite that starts below Synced; a newly created file has 0.
	Synced int
	// ID is a unique object id assigned at creation (a rename keeps it;
	// re-creation after unlink gives a new id).
	ID int
	// pendingSync: file lengths at the entry of fsync calls that have not completed yet
	pendingSync []int
}

// FS is the in-memory model of the root directory.
type FS struct {
	Files  map[string]*File // by base name
	nextID int
}

// NewFS returns an empty file system.
func NewFS() *FS {
	return &FS{Files: make(map[string]*File), nextID: 1}
}

func (fs *FS) newFile() *File {
	f := &File{ID: fs.nextID}
	fs.nextID++
	return f
}

// Apply applies one event. Marker, DirSync and Unsupported are no-ops. An
// event that does not fit the current state (write to a missing file, ...)
// returns an error and leaves the file system unchanged.
func (fs *FS) Apply(e Event) error {
	switch e.Kind {
	case Marker, DirSync, Unsupported:
		return nil
	case Create:
		f := fs.Files[e.Path]
		if f == nil {
			if e.Path == "" {
				return fmt.Errorf("fstrace: %s: empty name", e.Kind)
			}
			fs.Files[e.Path] = fs.newFile()
			return nil
		}
		if e.Excl {
			return fmt.Errorf("fstrace: event %d (%s): exclusive create of existing file", e.Seq, e)
		}
		if e.Trunc {
			f.Data, f.Synced = nil, 0
		}
		return nil
	}
	// Everything else needs an existing file.
	f := fs.Files[e.Path]
	if f == nil {
		return fmt.Errorf("fstrace: event %d (%s): no such file", e.Seq, e)
	}
	switch e.Kind {
	case Open:
		if e.Trunc {
			f.Data, f.Synced = nil, 0
		}
	case Write:
		switch {
		case e.Append:
			f.Data = append(f.Data, e.Data...)
		case e.Offset < 0:
			return fmt.Errorf("fstrace: event %d (%s): negative offset", e.Seq, e)
		default:
			off := int(e.Offset)
			end := off + len(e.Data)
			if len(e.Data) == 0 {
				return nil // a zero-length write never extends the file
			}
			if end > len(f.Data) {
				if end <= cap(f.Data) {
					old := len(f.Data)
					f.Data = f.Data[:end]
					clear(f.Data[old:])
				} else {
					nd := make([]byte, end, end+end/4)
					copy(nd, f.Data)
					f.Data = nd
				}
			}
			copy(f.Data[off:end], e.Data)
			if off < f.Synced {
				f.Synced = off
			}
		}
	case FsyncStart:
		f.pendingSync = append(f.pendingSync, len(f.Data))
	case Fsync:
		if n := len(f.pendingSync); n > 0 {
			// the oldest fsync in flight: durable is what had been written when it was called
			covered := f.pendingSync[0]
			f.pendingSync = f.pendingSync[1:]
			if covered > len(f.Data) {
				covered = len(f.Data)
			}
			if covered > f.Synced {
				f.Synced = covered
			}
		} else {
			f.Synced = len(f.Data)
		}
	case Truncate:
		if e.Size < 0 {
			return fmt.Errorf("fstrace: event %d (%s): negative size", e.Seq, e)
		}
		n := int(e.Size)
		switch {
		case n < len(f.Data):
			f.Data = f.Data[:n:n] // cut the capacity: the dropped bytes must not come back
			if f.Synced > n {
				f.Synced = n
			}
		case n > len(f.Data):
			nd := make([]byte, n)
			copy(nd, f.Data)
			f.Data = nd
		}
	case Rename:
		if e.NewPath == "" {
			return fmt.Errorf("fstrace: event %d (%s): empty new name", e.Seq, e)
		}
		if e.NewPath != e.Path {
			fs.Files[e.NewPath] = f
			delete(fs.Files, e.Path)
		}
	case Unlink:
		delete(fs.Files, e.Path)
	default:
		return fmt.Errorf("fstrace: event %d: unknown kind %d", e.Seq, int(e.Kind))
	}
	return nil
}

// Clone returns a deep copy.
func (fs *FS) Clone() *FS {
	c := &FS{Files: make(map[string]*File, len(fs.Files)), nextID: fs.nextID}
	for name, f := range fs.Files {
		nf := &File{Synced: f.Synced, ID: f.ID, pendingSync: append([]int(nil), f.pendingSync...)}
		if f.Data != nil {
			nf.Data = append(make([]byte, 0, len(f.Data)), f.Data...)
		}
		c.Files[name] = nf
	}
	return c
}

// Names returns the file names in sorted order.
func (fs *FS) Names() []string {
	names := make([]string, 0, len(fs.Files))
	for n := range fs.Files {
		names = append(names, n)
	}
	sort.Strings(names)
	return names
}

// Materialize writes every file into dir (which must exist and be empty),
// mode 0600.
func (fs *FS) Materialize(dir string) error {
	ents, err := os.ReadDir(dir)
	if err != nil {
		return err
	}
	if len(ents) != 0 {
		return fmt.Errorf("fstrace: Materialize: %s is not empty (%s ...)", dir, ents[0].Name())
	}
	for _, name := range fs.Names() {
		if name == "" || name == "." || name == ".." || filepath.Base(name) != name {
			return fmt.Errorf("fstrace: Materialize: bad file name %q", name)
		}
		if err := os.WriteFile(filepath.Join(dir, name), fs.Files[name].Data, 0o600); err != nil {
			return err
		}
	}
	return nil
}

// regularFiles lists the regular files of dir, except LockName, sorted.
func regularFiles(dir string) ([]string, error) {
	ents, err := os.ReadDir(dir)
	if err != nil {
		return nil, err
	}
	var names []string
	for _, de := range ents {
		if de.Name() == LockName || !de.Type().IsRegular() {
			continue
		}
		names = append(names, de.Name())
	}
	sort.Strings(names)
	return names, nil
}

// Equal compares the model with a real directory: same set of regular files
// (a file named ".lock" and anything that is not a regular file are ignored)
// with the same bytes. The second result describes the first difference.
func (fs *FS) Equal(dir string) (bool, string, error) {
	real, err := regularFiles(dir)
	if err != nil {
		return false, "", err
	}
	var model []string
	for _, n := range fs.Names() {
		if n != LockName {
			model = append(model, n)
		}
	}
	i, j := 0, 0
	for i < len(model) || j < len(real) {
		switch {
		case j >= len(real) || (i < len(model) && model[i] < real[j]):
			return false, fmt.Sprintf("file %q (%d bytes) is in the model but not in %s", model[i], len(fs.Files[model[i]].Data), dir), nil
		case i >= len(model) || real[j] < model[i]:
			return false, fmt.Sprintf("file %q is in %s but not in the model", real[j], dir), nil
		}
		i++
		j++
	}
	for _, n := range model {
		got, err := os.ReadFile(filepath.Join(dir, n))
		if err != nil {
			return false, "", err
		}
		want := fs.Files[n].Data
		if bytes.Equal(got, want) {
			continue
		}
		k := 0
		for k < len(got) && k < len(want) && got[k] == want[k] {
			k++
		}
		if k == len(got) || k == len(want) {
			return false, fmt.Sprintf("file %q: model has %d bytes, %s has %d bytes (common prefix %d)", n, len(want), dir, len(got), k), nil
		}
		return false, fmt.Sprintf("file %q: first difference at offset %d: model 0x%02x, %s 0x%02x (model %d bytes, real %d bytes)", n, k, want[k], dir, got[k], len(want), len(got)), nil
	}
	return true, "", nil
}

// LoadFS reads a real directory into an FS (Synced = len for every file).
// A file named ".lock" and anything that is not a regular file are ignored.
func LoadFS(dir string) (*FS, error) {
	names, err := regularFiles(dir)
	if err != nil {
		return nil, err
	}
	fs := NewFS()
	for _, n := range names {
		data, err := os.ReadFile(filepath.Join(dir, n))
		if err != nil {
			return nil, err
		}
		f := fs.newFile()
		if len(data) > 0 {
			f.Data = data
		}
		f.Synced = len(data)
		fs.Files[n] = f
	}
	return fs, nil
}
