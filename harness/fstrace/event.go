// Package fstrace turns the output of
//
//	strace -f -y -xx -s 1048576 --seccomp-bpf -o <tracefile> -e trace=openat,write,pwrite64,fsync,fdatasync,ftruncate,truncate,renameat,renameat2,rename,unlinkat,unlink,mkdirat,mkdir,close,utimensat,copy_file_range,sendfile <program> <args...>
//
// into an ordered list of file-system events that concern one directory (the
// "root") plus one marker file, and provides an in-memory file system on
// which any prefix of those events can be replayed.
//
// # Ordering
//
// Events are ordered by the line on which the syscall completed: for an
// `<unfinished ...>` / `<... x resumed>` pair that is the resumed line.
// strace stops a thread at syscall exit until the line is printed, so if B
// was started after A returned (in any thread), A is always before B. Two
// syscalls that overlap in time have no defined order in the trace; in
// particular two overlapping appends to the same file through different
// open file descriptions can be replayed in the wrong order.
//
// # File descriptors
//
// The parser keeps a table of the fds that openat returned for root files
// (O_APPEND or not, file position, current name of the object: it follows
// renames and notices unlinks). The -y annotation of every call is checked
// against that table; a disagreement, or a write on an fd that was not
// opened in the trace, gives an Unsupported event instead of a guess.
//
// # Limitations
//
//   - The trace set contains no clone/fork/execve, so all tids are treated
//     as threads of ONE process with one fd table.
//   - lseek and read are not traced: the position of a non-O_APPEND fd is
//     derived from the writes alone (it starts at 0 and advances by each
//     write(2)). A program that seeks, or reads through an O_RDWR fd and
//     then writes through it, is replayed wrongly without any warning.
//   - mmap stores, writev/pwritev, fallocate, link, symlink, dup*, io_uring
//     are not in the trace set and therefore invisible.
//   - utimensat is parsed and ignored (time stamps are not modelled).
//   - root and marker must be canonical paths (no symlinks), because -y
//     prints what /proc/<pid>/fd shows.
//   - Only direct children of root are modelled. Files in sub-directories
//     are ignored; mkdir/rmdir of a direct child is Unsupported.
package fstrace

import (
	"fmt"
	"strings"
)

// Kind is the type of an Event.
type Kind int

const (
	// Create is a successful openat(... O_CREAT ...) on a root file. Whether
	// the file already existed is decided by the replayer.
	Create Kind = iota
	// Open is a successful openat without O_CREAT but with O_TRUNC on a root
	// file. Opens without O_CREAT and without O_TRUNC generate no event.
	Open
	// Write is a write(2)/pwrite64(2) on a root file.
	Write
	// Fsync is fsync(2) or fdatasync(2) on a root file.
	Fsync
	// DirSync is fsync(2)/fdatasync(2) on the root directory itself.
	DirSync
	// Truncate is ftruncate(2)/truncate(2) of a root file to Size.
	Truncate
	// Rename is rename/renameat/renameat2 where both names are root files.
	Rename
	// Unlink is unlink/unlinkat of a root file.
	Unlink
	// Marker is a write(2) to the marker file.
	Marker
	// Unsupported is anything that touches a root file and cannot be modelled
	// (or whose outcome is unknown). Detail says what.
	Unsupported
	// FsyncStart marks the ENTRY of an fsync(2)/fdatasync(2) on a root file that did not complete on
	// the same trace line (another thread's syscall was reported in between). An fsync only makes
	// durable what had been written before it was called: the replayer remembers the file length
	// at FsyncStart and the matching Fsync makes exactly that many bytes durable.
	FsyncStart

	numKinds
)

var kindNames = [...]string{
	Create:      "create",
	Open:        "open",
	Write:       "write",
	Fsync:       "fsync",
	DirSync:     "dirsync",
	Truncate:    "truncate",
	Rename:      "rename",
	Unlink:      "unlink",
	Marker:      "marker",
	Unsupported: "unsupported",
	FsyncStart:  "fsync-start",
}

func (k Kind) String() string {
	if k >= 0 && int(k) < len(kindNames) {
		return kindNames[k]
	}
	return fmt.Sprintf("kind(%d)", int(k))
}

// Event is one file-system event of the traced run.
type Event struct {
	Seq     int    // index in Trace.Events
	Line    int    // 1-based line number in the trace file of the completing line
	Kind    Kind   //
	Path    string // base name of the file inside root ("" for Marker/DirSync)
	NewPath string // Rename only
	Data    []byte // Write, Marker
	Offset  int64  // Write: position where the data lands; -1 when Append
	Append  bool   // Write: the fd is in O_APPEND mode; Create/Open: O_APPEND was given
	Excl    bool   // Create: O_EXCL
	Trunc   bool   // Create/Open: O_TRUNC
	Size    int64  // Truncate
	Detail  string // Unsupported: what happened
}

// String gives a short human-readable form; the data is never printed.
func (e Event) String() string {
	switch e.Kind {
	case Create, Open:
		var fl []string
		if e.Excl {
			fl = append(fl, "excl")
		}
		if e.Trunc {
			fl = append(fl, "trunc")
		}
		if e.Append {
			fl = append(fl, "append")
		}
		if len(fl) == 0 {
			return fmt.Sprintf("%s %s", e.Kind, e.Path)
		}
		return fmt.Sprintf("%s %s [%s]", e.Kind, e.Path, strings.Join(fl, ","))
	case Write:
		if e.Append {
			return fmt.Sprintf("write %s +%d (append)", e.Path, len(e.Data))
		}
		return fmt.Sprintf("write %s +%d @%d", e.Path, len(e.Data), e.Offset)
	case Fsync:
		return "fsync " + e.Path
	case FsyncStart:
		return "fsync-start " + e.Path
	case DirSync:
		return "dirsync"
	case Truncate:
		return fmt.Sprintf("truncate %s %d", e.Path, e.Size)
	case Rename:
		return fmt.Sprintf("rename %s -> %s", e.Path, e.NewPath)
	case Unlink:
		return "unlink " + e.Path
	case Marker:
		return fmt.Sprintf("marker +%d", len(e.Data))
	case Unsupported:
		if e.Path == "" {
			return "unsupported: " + e.Detail
		}
		return fmt.Sprintf("unsupported %s: %s", e.Path, e.Detail)
	}
	return e.Kind.String()
}
