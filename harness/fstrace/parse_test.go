package fstrace

import (
	"bytes"
	"fmt"
	"strings"
	"testing"
)

const (
	tRoot   = "/dev/shm/t/root"
	tMarker = "/dev/shm/t/marker"
)

// hx hex-escapes s the way strace -xx does.
func hx(s string) string { return hexEscape(s) }

// cwd is the AT_FDCWD annotation used in the hand-written lines.
var cwd = "AT_FDCWD<" + hx("/dev/shm/t") + ">"

func rp(name string) string { return tRoot + "/" + name }

// fdp formats an annotated fd.
func fdp(fd int, path string) string { return fmt.Sprintf("%d<%s>", fd, hx(path)) }

func parseLines(t *testing.T, lines ...string) *Trace {
	t.Helper()
	tr, err := ParseReader(strings.NewReader(strings.Join(lines, "\n")+"\n"), tRoot, tMarker)
	if err != nil {
		t.Fatalf("ParseReader: %v", err)
	}
	for i, e := range tr.Events {
		if e.Seq != i {
			t.Fatalf("event %d has Seq %d", i, e.Seq)
		}
	}
	return tr
}

func eventStrings(tr *Trace) []string {
	var s []string
	for _, e := range tr.Events {
		s = append(s, e.String())
	}
	return s
}

func wantEvents(t *testing.T, tr *Trace, want ...string) {
	t.Helper()
	got := eventStrings(tr)
	if len(got) != len(want) {
		t.Fatalf("got %d events, want %d:\n got: %q\nwant: %q\nerrors: %q", len(got), len(want), got, want, tr.Errors)
	}
	for i := range got {
		if got[i] != want[i] {
			t.Fatalf("event %d: got %q, want %q\nall: %q", i, got[i], want[i], got)
		}
	}
}

func TestUnescape(t *testing.T) {
	all := make([]byte, 256)
	var allHex strings.Builder
	for i := range all {
		all[i] = byte(i)
		fmt.Fprintf(&allHex, "\\x%02x", i)
	}
	cases := []struct {
		in   string
		want string
		bad  bool
	}{
		{"", "", false},
		{`\x2f\x64\x65\x76`, "/dev", false},
		{`\x2F\x0A\xfF`, "/\n\xff", false},
		{allHex.String(), string(all), false},
		{`plain text`, "plain text", false},
		{`a\nb\tc\rd\\e\"f`, "a\nb\tc\rd\\e\"f", false},
		{`\0`, "\x00", false},
		{`\0a`, "\x00a", false},
		{`\1\12\123\1234`, "\x01\x0a\x53\x534", false},
		{`\377\0001`, "\xff\x001", false},
		{`\v\f\a\b\e\'`, "\v\f\a\b\x1b'", false},
		{`mixed\x41\101A\n`, "mixedAAA\n", false},
		{`\x4`, "\x04", false}, // short hex escape
		{`\x41\x4`, "A\x04", false},
		{`abc\x41`, "abcA", false}, // length not a multiple of 4
		{`\x41bcd`, "Abcd", false}, // multiple of 4 but not all hex groups
		{`\`, "", true},
		{`abc\`, "", true},
		{`\xzz`, "", true},
		{`\q`, "", true},
		{`\777`, "", true},
	}
	for _, c := range cases {
		got, err := Unescape(nil, []byte(c.in))
		if c.bad {
			if err == nil {
				t.Errorf("Unescape(%q): no error, got %q", c.in, got)
			}
			continue
		}
		if err != nil {
			t.Errorf("Unescape(%q): %v", c.in, err)
			continue
		}
		if string(got) != c.want {
			t.Errorf("Unescape(%q) = %q, want %q", c.in, got, c.want)
		}
	}
	// Appending to a non-empty dst must keep the prefix.
	got, err := Unescape([]byte("pre"), []byte(`\x41\x42`))
	if err != nil || string(got) != "preAB" {
		t.Errorf("append: %q %v", got, err)
	}
	got, err = Unescape(make([]byte, 3, 100), []byte(`\x41\x42`))
	if err != nil || string(got) != "\x00\x00\x00AB" {
		t.Errorf("append with capacity: %q %v", got, err)
	}
}

func TestParseBasic(t *testing.T) {
	tr := parseLines(t,
		// Noise that must be ignored.
		`100   openat(`+cwd+`, "`+hx("/proc/self/cgroup")+`", O_RDONLY|O_CLOEXEC) = 3<`+hx("/proc/100/cgroup")+`>`,
		`100   close(`+fdp(3, "/proc/100/cgroup")+`) = 0`,
		`100   write(1<`+hx("pipe:[12345]")+`>, "`+hx("hello")+`", 5) = 5`,
		// Marker file: opening it is no event, writing is.
		`100   openat(`+cwd+`, "`+hx(tMarker)+`", O_WRONLY|O_CREAT|O_APPEND|O_CLOEXEC, 0600) = 7`+"<"+hx(tMarker)+">",
		`100   write(`+fdp(7, tMarker)+`, "`+hx("B 1\n")+`", 4) = 4`,
		// O_CREAT|O_EXCL, then a failing one.
		`100   openat(`+cwd+`, "`+hx(rp("a.log"))+`", O_WRONLY|O_CREAT|O_EXCL|O_APPEND|O_CLOEXEC, 0600) = 8<`+hx(rp("a.log"))+`>`,
		`100   openat(`+cwd+`, "`+hx(rp("a.log"))+`", O_WRONLY|O_CREAT|O_EXCL|O_CLOEXEC, 0600) = -1 EEXIST (File exists)`,
		// Append write, complete and short.
		`100   write(`+fdp(8, rp("a.log"))+`, "`+hx("hello\x00\xff")+`", 7) = 7`,
		`100   write(`+fdp(8, rp("a.log"))+`, "`+hx("0123456789")+`", 10) = 4`,
		`100   fsync(`+fdp(8, rp("a.log"))+`) = 0`,
		`100   fdatasync(`+fdp(8, rp("a.log"))+`) = 0`,
		// renameat2 with AT_FDCWD; the new name is relative and resolved against the cwd annotation.
		`100   renameat2(`+cwd+`, "`+hx(rp("a.log"))+`", `+cwd+`, "`+hx("root/b.log")+`", RENAME_NOREPLACE) = 0`,
		// The open fd now shows the new name.
		`100   write(`+fdp(8, rp("b.log"))+`, "`+hx("x")+`", 1) = 1`,
		`100   unlinkat(`+cwd+`, "`+hx(rp("b.log"))+`", 0) = 0`,
		`100   unlinkat(`+cwd+`, "`+hx(rp("b.log"))+`", 0) = -1 ENOENT (No such file or directory)`,
		// Writes to the deleted file: strace 6.1 form and the older form.
		`100   write(`+fdp(8, rp("b.log"))+`(deleted), "`+hx("gone")+`", 4) = 4`,
		`100   write(8<`+hx(rp("b.log")+" (deleted)")+`>, "`+hx("gone")+`", 4) = 4`,
		`100   fsync(`+fdp(8, rp("b.log"))+`(deleted)) = 0`,
		`100   close(`+fdp(8, rp("b.log"))+`(deleted)) = 0`,
		// Directory fsync.
		`100   openat(`+cwd+`, "`+hx(tRoot)+`", O_RDONLY|O_CLOEXEC) = 8<`+hx(tRoot)+`>`,
		`100   fsync(`+fdp(8, tRoot)+`) = 0`,
		`100   close(`+fdp(8, tRoot)+`) = 0`,
		`100   write(`+fdp(7, tMarker)+`, "`+hx("E 1 ok\n")+`", 7) = 7`,
		`100   --- SIGURG {si_signo=SIGURG, si_code=SI_TKILL, si_pid=100, si_uid=0} ---`,
		`100   +++ exited with 0 +++`,
	)
	wantEvents(t, tr,
		"marker +4",
		"create a.log [excl,append]",
		"write a.log +7 (append)",
		"write a.log +4 (append)",
		"fsync a.log",
		"fsync a.log",
		"rename a.log -> b.log",
		"write b.log +1 (append)",
		"unlink b.log",
		"dirsync",
		"marker +7",
	)
	if tr.FailedCalls != 2 || tr.SkippedLines != 0 || tr.UnfinishedCalls != 0 || len(tr.Errors) != 0 {
		t.Fatalf("failed=%d skipped=%d unfinished=%d errors=%q", tr.FailedCalls, tr.SkippedLines, tr.UnfinishedCalls, tr.Errors)
	}
	if tr.Lines != 25 {
		t.Errorf("Lines = %d", tr.Lines)
	}
	ev := tr.Events
	if string(ev[0].Data) != "B 1\n" || ev[0].Line != 5 {
		t.Errorf("marker event: %+v", ev[0])
	}
	if !ev[1].Excl || ev[1].Trunc || !ev[1].Append || ev[1].Line != 6 {
		t.Errorf("create event: %+v", ev[1])
	}
	if string(ev[2].Data) != "hello\x00\xff" || ev[2].Offset != -1 || !ev[2].Append {
		t.Errorf("write event: %+v", ev[2])
	}
	if string(ev[3].Data) != "0123" {
		t.Errorf("short write: data %q", ev[3].Data)
	}
	if ev[6].Path != "a.log" || ev[6].NewPath != "b.log" {
		t.Errorf("rename event: %+v", ev[6])
	}
	// Replaying gives an empty directory.
	fs := NewFS()
	for _, e := range ev {
		if err := fs.Apply(e); err != nil {
			t.Fatal(err)
		}
	}
	if len(fs.Files) != 0 {
		t.Errorf("files left: %v", fs.Names())
	}
}

func TestParseUnfinishedResumed(t *testing.T) {
	big := strings.Repeat("A", 1000)
	tr := parseLines(t,
		`200   openat(`+cwd+`, "`+hx(rp("x"))+`", O_WRONLY|O_CREAT|O_APPEND|O_CLOEXEC, 0600) = 8<`+hx(rp("x"))+`>`,
		`201   openat(`+cwd+`, "`+hx(rp("y"))+`", O_WRONLY|O_CREAT|O_APPEND|O_CLOEXEC, 0600 <unfinished ...>`,
		`200   write(`+fdp(8, rp("x"))+`, "`+hx(big)+`", 1000 <unfinished ...>`,
		`201   <... openat resumed>)             = 9<`+hx(rp("y"))+`>`,
		`201   --- SIGURG {si_signo=SIGURG, si_code=SI_TKILL, si_pid=200, si_uid=0} ---`,
		`201   write(`+fdp(9, rp("y"))+`, "`+hx("yy")+`", 2) = 2`,
		`200   <... write resumed>)              = 1000`,
		`200   fsync(`+fdp(8, rp("x"))+` <unfinished ...>`,
		`201   fsync(`+fdp(9, rp("y"))+` <unfinished ...>`,
		`201   <... fsync resumed>)              = 0`,
		`200   <... fsync resumed>)              = 0`,
		// A failing call split over two lines.
		`201   unlinkat(`+cwd+`, "`+hx(rp("nope"))+`", 0 <unfinished ...>`,
		`201   <... unlinkat resumed>)           = -1 ENOENT (No such file or directory)`,
	)
	wantEvents(t, tr,
		"create x [append]",
		"create y [append]",
		"write y +2 (append)",
		"write x +1000 (append)",
		"fsync-start x",
		"fsync-start y",
		"fsync y",
		"fsync x",
	)
	if got := tr.Events[3]; got.Line != 7 || string(got.Data) != big {
		t.Errorf("resumed write: line %d, %d bytes", got.Line, len(got.Data))
	}
	if tr.Events[1].Line != 4 {
		t.Errorf("resumed openat: line %d", tr.Events[1].Line)
	}
	if tr.FailedCalls != 1 || tr.SkippedLines != 0 || tr.UnfinishedCalls != 0 {
		t.Fatalf("failed=%d skipped=%d unfinished=%d errors=%q", tr.FailedCalls, tr.SkippedLines, tr.UnfinishedCalls, tr.Errors)
	}
}

func TestParsePositions(t *testing.T) {
	tr := parseLines(t,
		`300   openat(`+cwd+`, "`+hx(rp("n.dat"))+`", O_RDWR|O_CREAT|O_TRUNC|O_CLOEXEC, 0666) = 5<`+hx(rp("n.dat"))+`>`,
		`300   write(`+fdp(5, rp("n.dat"))+`, "`+hx("aaaa")+`", 4) = 4`,
		`300   write(`+fdp(5, rp("n.dat"))+`, "`+hx("bbbbbb")+`", 6) = 3`,
		`300   pwrite64(`+fdp(5, rp("n.dat"))+`, "`+hx("ZZ")+`", 2, 20) = 2`,
		`300   write(`+fdp(5, rp("n.dat"))+`, "`+hx("c")+`", 1) = 1`,
		`300   ftruncate(`+fdp(5, rp("n.dat"))+`, 2) = 0`,
		`300   write(`+fdp(5, rp("n.dat"))+`, "`+hx("d")+`", 1) = 1`,
		`300   close(`+fdp(5, rp("n.dat"))+`) = 0`,
		`300   truncate("`+hx(rp("n.dat"))+`", 12) = 0`,
		// Same fd number, new open: position starts again at 0; O_TRUNC without O_CREAT.
		`300   openat(`+cwd+`, "`+hx(rp("n.dat"))+`", O_WRONLY|O_TRUNC|O_CLOEXEC) = 5<`+hx(rp("n.dat"))+`>`,
		`300   write(`+fdp(5, rp("n.dat"))+`, "`+hx("ee")+`", 2) = 2`,
		// Read-only open: no event.
		`300   openat(`+cwd+`, "`+hx(rp("n.dat"))+`", O_RDONLY|O_CLOEXEC) = 6<`+hx(rp("n.dat"))+`>`,
		`300   close(`+fdp(6, rp("n.dat"))+`) = 0`,
		// pwrite64 on an O_APPEND fd appends on Linux.
		`300   openat(`+cwd+`, "`+hx(rp("n.dat"))+`", O_WRONLY|O_APPEND|O_CLOEXEC) = 6<`+hx(rp("n.dat"))+`>`,
		`300   pwrite64(`+fdp(6, rp("n.dat"))+`, "`+hx("ff")+`", 2, 0) = 2`,
	)
	wantEvents(t, tr,
		"create n.dat [trunc]",
		"write n.dat +4 @0",
		"write n.dat +3 @4",
		"write n.dat +2 @20",
		"write n.dat +1 @7",
		"truncate n.dat 2",
		"write n.dat +1 @8",
		"truncate n.dat 12",
		"open n.dat [trunc]",
		"write n.dat +2 @0",
		"write n.dat +2 (append)",
	)
	fs := NewFS()
	for i, e := range tr.Events {
		if err := fs.Apply(e); err != nil {
			t.Fatal(err)
		}
		if i == 6 {
			if got := string(fs.Files["n.dat"].Data); got != "aa\x00\x00\x00\x00\x00\x00d" {
				t.Errorf("after event 6: %q", got)
			}
		}
	}
	if got := string(fs.Files["n.dat"].Data); got != "eeff" {
		t.Errorf("final: %q", got)
	}
}

func TestParseIgnoredAndUnsupported(t *testing.T) {
	tr := parseLines(t,
		// .lock is ignored entirely.
		`400   openat(`+cwd+`, "`+hx(rp(".lock"))+`", O_RDWR|O_CREAT|O_CLOEXEC, 0600) = 4<`+hx(rp(".lock"))+`>`,
		`400   write(`+fdp(4, rp(".lock"))+`, "`+hx("1")+`", 1) = 1`,
		`400   fsync(`+fdp(4, rp(".lock"))+`) = 0`,
		`400   close(`+fdp(4, rp(".lock"))+`) = 0`,
		// Sub-directories are ignored, creating one is not.
		`400   mkdirat(`+cwd+`, "`+hx(tRoot)+`", 0700) = -1 EEXIST (File exists)`,
		`400   mkdirat(`+cwd+`, "`+hx(rp("sub"))+`", 0700) = 0`,
		`400   openat(`+cwd+`, "`+hx(rp("sub/f"))+`", O_WRONLY|O_CREAT|O_CLOEXEC, 0600) = 4<`+hx(rp("sub/f"))+`>`,
		`400   write(`+fdp(4, rp("sub/f"))+`, "`+hx("1")+`", 1) = 1`,
		`400   close(`+fdp(4, rp("sub/f"))+`) = 0`,
		// A sibling directory with the same prefix is not root.
		`400   openat(`+cwd+`, "`+hx(tRoot+"2/f")+`", O_WRONLY|O_CREAT|O_CLOEXEC, 0600) = 4<`+hx(tRoot+"2/f")+`>`,
		`400   write(`+fdp(4, tRoot+"2/f")+`, "`+hx("1")+`", 1) = 1`,
		`400   close(`+fdp(4, tRoot+"2/f")+`) = 0`,
		// utimensat is not modelled and not flagged.
		`400   utimensat(`+cwd+`, "`+hx(rp("a"))+`", [{tv_sec=5, tv_nsec=0} /* 1970-01-01T00:00:05+0000 */, {tv_sec=5, tv_nsec=0} /* 1970-01-01T00:00:05+0000 */], 0) = 0`,
		// Relative to a directory fd.
		`400   openat(`+cwd+`, "`+hx(tRoot)+`", O_RDONLY|O_CLOEXEC|O_DIRECTORY) = 3<`+hx(tRoot)+`>`,
		`400   openat(`+fdp(3, tRoot)+`, "`+hx("a")+`", O_WRONLY|O_CREAT, 0600) = 4<`+hx(rp("a"))+`>`,
		`400   write(`+fdp(4, rp("a"))+`, "`+hx("abc")+`", 3) = 3`,
		// copy_file_range / sendfile into a root file; out of root is fine.
		`400   copy_file_range(9<`+hx("/etc/passwd")+`>, NULL, `+fdp(4, rp("a"))+`, NULL, 2147479552, 0) = 100`,
		`400   copy_file_range(9<`+hx("/etc/passwd")+`>, NULL, `+fdp(4, rp("a"))+`, NULL, 2147479552, 0) = 0`,
		`400   sendfile(`+fdp(4, rp("a"))+`, 9<`+hx("/etc/passwd")+`>, NULL, 4096) = 10`,
		`400   copy_file_range(`+fdp(4, rp("a"))+`, NULL, 9<`+hx("/tmp/out")+`>, NULL, 2147479552, 0) = 3`,
		// Abbreviated buffer.
		`400   write(`+fdp(4, rp("a"))+`, "`+hx("abc")+`"..., 10) = 10`,
		// fd that was never opened in the trace.
		`400   write(`+fdp(77, rp("a"))+`, "`+hx("abc")+`", 3) = 3`,
		// Moves across the root boundary, exchange.
		`400   rename("`+hx(rp("a"))+`", "`+hx("/tmp/a")+`") = 0`,
		`400   renameat(`+cwd+`, "`+hx("/tmp/b")+`", `+cwd+`, "`+hx(rp("b"))+`") = 0`,
		`400   renameat2(`+cwd+`, "`+hx(rp("b"))+`", `+cwd+`, "`+hx(rp("c"))+`", RENAME_EXCHANGE) = 0`,
		`400   unlinkat(`+cwd+`, "`+hx(rp("sub"))+`", AT_REMOVEDIR) = 0`,
		// A syscall outside the modelled set that names a root file.
		`400   linkat(`+cwd+`, "`+hx(rp("b"))+`", `+cwd+`, "`+hx(rp("d"))+`", 0) = 0`,
		`400   linkat(`+cwd+`, "`+hx("/tmp/x")+`", `+cwd+`, "`+hx("/tmp/y")+`", 0) = 0`,
		// open(2), unlink(2), mkdir(2) without dirfd.
		`400   open("`+hx(rp("o"))+`", O_WRONLY|O_CREAT|O_TRUNC, 0600) = 10`,
		`400   unlink("`+hx(rp("o"))+`") = 0`,
		`400   mkdir("`+hx("/tmp/zz")+`", 0700) = 0`,
	)
	wantEvents(t, tr,
		"unsupported sub: mkdir of a sub-directory of root",
		"create a",
		"write a +3 @0",
		"unsupported a: copy_file_range of 100 bytes into a root file (data not in the trace)",
		"unsupported a: sendfile of 10 bytes into a root file (data not in the trace)",
		"unsupported a: write buffer abbreviated by strace: 3 of 10 bytes",
		"unsupported a: write on fd 77 that was not opened in the trace (open flags and position unknown)",
		"unsupported a: rename of a root file to a place outside the modelled files",
		"unsupported b: rename of something outside the modelled files onto a root file",
		"unsupported b: renameat2 to c with flags RENAME_EXCHANGE",
		"unsupported sub: rmdir of a sub-directory of root",
		"unsupported: unmodelled syscall linkat",
		"create o [trunc]",
		"unlink o",
	)
	if tr.SkippedLines != 0 || tr.FailedCalls != 1 {
		t.Fatalf("skipped=%d failed=%d errors=%q", tr.SkippedLines, tr.FailedCalls, tr.Errors)
	}
	if len(tr.Errors) != 1 || !strings.Contains(tr.Errors[0], "abbreviated") {
		t.Fatalf("errors: %q", tr.Errors)
	}
}

func TestParseKilled(t *testing.T) {
	tr := parseLines(t,
		`500   openat(`+cwd+`, "`+hx(rp("k"))+`", O_WRONLY|O_CREAT|O_CLOEXEC, 0600) = 10<`+hx(rp("k"))+`>`,
		`501   pwrite64(`+fdp(10, rp("k"))+`, "`+hx("abcd")+`", 4, 0 <unfinished ...>`,
		`502   fsync(`+fdp(10, rp("k"))+` <unfinished ...>`,
		`503   pwrite64(`+fdp(10, rp("k"))+`, "`+hx("abcd")+`", 4, 0 <unfinished ...>`,
		`504   write(1<`+hx("pipe:[1]")+`>, "`+hx("abcd")+`", 4 <unfinished ...>`,
		`505   close(`+fdp(10, rp("k"))+` <unfinished ...>`,
		`506   fsync(`+fdp(10, rp("k"))+`) = ?`,
		`502   <... fsync resumed>)              = -1 (errno 18446744073709551598)`,
		`501   <... pwrite64 resumed>)           = -1 (errno 18446744073709551598)`,
		`503   +++ killed by SIGKILL +++`,
		`504   +++ killed by SIGKILL +++`,
		`505   +++ killed by SIGKILL +++`,
		`500   +++ killed by SIGKILL +++`,
	)
	if tr.UnfinishedCalls != 6 || tr.SkippedLines != 0 || tr.FailedCalls != 0 {
		t.Fatalf("unfinished=%d skipped=%d failed=%d %q", tr.UnfinishedCalls, tr.SkippedLines, tr.FailedCalls, tr.Errors)
	}
	got := eventStrings(tr)
	// the unfinished fsync of file k announces itself with an fsync-start event
	if len(got) != 6 || got[0] != "create k" || got[1] != "fsync-start k" {
		t.Fatalf("events: %q", got)
	}
	for _, s := range got[2:] {
		if !strings.HasPrefix(s, "unsupported: ") || !strings.Contains(s, "unknown outcome") {
			t.Errorf("event %q", s)
		}
	}
	// A trace that simply ends.
	tr = parseLines(t,
		`500   openat(`+cwd+`, "`+hx(rp("k"))+`", O_WRONLY|O_CREAT|O_CLOEXEC, 0600) = 10<`+hx(rp("k"))+`>`,
		`501   ftruncate(`+fdp(10, rp("k"))+`, 0 <unfinished ...>`,
	)
	if tr.UnfinishedCalls != 1 || len(tr.Events) != 2 || tr.Events[1].Kind != Unsupported {
		t.Fatalf("unfinished=%d events=%q", tr.UnfinishedCalls, eventStrings(tr))
	}
}

func TestParseFdReuseAndInflightRename(t *testing.T) {
	tr := parseLines(t,
		`600   openat(`+cwd+`, "`+hx(rp("p"))+`", O_WRONLY|O_CREAT|O_APPEND|O_CLOEXEC, 0600) = 8<`+hx(rp("p"))+`>`,
		// The close is reported after another thread got the same fd number.
		`600   close(`+fdp(8, rp("p"))+` <unfinished ...>`,
		`601   openat(`+cwd+`, "`+hx(rp("q"))+`", O_WRONLY|O_CREAT|O_CLOEXEC, 0600) = 8<`+hx(rp("q"))+`>`,
		`600   <... close resumed>)              = 0`,
		`601   write(`+fdp(8, rp("q"))+`, "`+hx("qq")+`", 2) = 2`,
		// A rename completes while a write on the renamed file is in flight:
		// the event carries the name the file has at completion.
		`601   write(`+fdp(8, rp("q"))+`, "`+hx("rr")+`", 2 <unfinished ...>`,
		`600   renameat(`+cwd+`, "`+hx(rp("q"))+`", `+cwd+`, "`+hx(rp("r"))+`") = 0`,
		`601   <... write resumed>)              = 2`,
		// An unlink completes while a write is in flight: no event.
		`601   write(`+fdp(8, rp("r"))+`, "`+hx("ss")+`", 2 <unfinished ...>`,
		`600   unlinkat(`+cwd+`, "`+hx(rp("r"))+`", 0) = 0`,
		`601   <... write resumed>)              = 2`,
		// The fd table says "gone" but strace still shows a live name: flagged.
		`601   write(`+fdp(8, rp("r"))+`, "`+hx("tt")+`", 2) = 2`,
	)
	wantEvents(t, tr,
		"create p [append]",
		"create q",
		"write q +2 @0",
		"rename q -> r",
		"write r +2 @2",
		"unlink r",
		`unsupported r: write on fd 8: annotated path "r" disagrees with the tracked fd ("r", unlinked or replaced)`,
	)
	if tr.SkippedLines != 0 {
		t.Fatalf("skipped=%d %q", tr.SkippedLines, tr.Errors)
	}
}

func TestParseGarbage(t *testing.T) {
	tr := parseLines(t,
		`this is not strace output`,
		`700   <... write resumed>)              = 5`,
		`700   write(`+fdp(3, rp("a"))+`, "`+hx("abc")+`", 3)`,
		`700   write(`+fdp(3, rp("a"))+`, "`+hx("abc")+`, 3) = 3`,
		`700   fsync(`+fdp(3, "/somewhere/else")+`) = 0`,
		``,
	)
	if tr.SkippedLines != 4 || len(tr.Events) != 0 {
		t.Fatalf("skipped=%d events=%q errors=%q", tr.SkippedLines, eventStrings(tr), tr.Errors)
	}
	if len(tr.Errors) != 4 {
		t.Fatalf("errors: %q", tr.Errors)
	}
}

func TestParsePlainStrings(t *testing.T) {
	// Without -xx (and without -f): strings are printed with C escapes.
	tr := parseLines(t,
		`openat(AT_FDCWD</dev/shm/t>, "root/a \"x\".log", O_WRONLY|O_CREAT|O_APPEND|O_CLOEXEC, 0600) = 3</dev/shm/t/root/a "x".log>`,
		`write(3</dev/shm/t/root/a "x".log>, "line = 1\n\0\377\"q\"\\", 15) = 15`,
		`write(3</dev/shm/t/root/a "x".log>, "", 0) = 0`,
		`[pid   123] fsync(3</dev/shm/t/root/a "x".log>) = 0`,
	)
	wantEvents(t, tr,
		`create a "x".log [append]`,
		`write a "x".log +15 (append)`,
		`write a "x".log +0 (append)`,
		`fsync a "x".log`,
	)
	if want := "line = 1\n\x00\xff\"q\"\\"; string(tr.Events[1].Data) != want {
		t.Errorf("data %q, want %q", tr.Events[1].Data, want)
	}
	if tr.SkippedLines != 0 {
		t.Fatalf("skipped=%d %q", tr.SkippedLines, tr.Errors)
	}
}

func TestParseLongLine(t *testing.T) {
	data := bytes.Repeat([]byte{0, 1, 2, 0xfe, 0xff}, 1<<20/5+1)[:1<<20]
	line := `800   write(` + fdp(3, rp("big")) + `, "` + hx(string(data)) + `", 1048576) = 1048576`
	tr := parseLines(t,
		`800   openat(`+cwd+`, "`+hx(rp("big"))+`", O_WRONLY|O_CREAT|O_APPEND|O_CLOEXEC, 0600) = 3<`+hx(rp("big"))+`>`,
		line,
	)
	if len(tr.Events) != 2 || !bytes.Equal(tr.Events[1].Data, data) {
		t.Fatalf("events %q errors %q", eventStrings(tr), tr.Errors)
	}
	// A line beyond MaxLineBytes is an error, not silently dropped.
	huge := `800   write(1<x>, "` + strings.Repeat("A", MaxLineBytes) + `", 1) = 1`
	if _, err := ParseReader(strings.NewReader(huge+"\n"), tRoot, tMarker); err == nil {
		t.Fatal("no error for an over-long line")
	}
}

func TestParseArgs(t *testing.T) {
	if _, err := ParseReader(strings.NewReader(""), "relative/root", tMarker); err == nil {
		t.Error("relative root accepted")
	}
	if _, err := ParseReader(strings.NewReader(""), tRoot, "marker"); err == nil {
		t.Error("relative marker accepted")
	}
	// A trailing slash is tolerated.
	tr, err := ParseReader(strings.NewReader(
		`1 openat(`+cwd+`, "`+hx(rp("a"))+`", O_WRONLY|O_CREAT, 0600) = 3<`+hx(rp("a"))+`>`+"\n"), tRoot+"/", tMarker)
	if err != nil || len(tr.Events) != 1 {
		t.Errorf("trailing slash: %v %v", tr, err)
	}
	if _, err := Parse("/nonexistent/trace", tRoot, tMarker); err == nil {
		t.Error("missing file accepted")
	}
}

func BenchmarkUnescape(b *testing.B) {
	data := make([]byte, 100_000)
	for i := range data {
		data[i] = byte(i * 7)
	}
	esc := []byte(hx(string(data)))
	dst := make([]byte, 0, len(data))
	b.SetBytes(int64(len(esc)))
	for i := 0; i < b.N; i++ {
		if _, err := Unescape(dst[:0], esc); err != nil {
			b.Fatal(err)
		}
	}
}
