package fstrace

import "fmt"

// hexVal maps an ASCII hex digit to its value, 0xff for anything else.
var hexVal = func() (t [256]byte) {
	for i := range t {
		t[i] = 0xff
	}
	for c := byte('0'); c <= '9'; c++ {
		t[c] = c - '0'
	}
	for c := byte('a'); c <= 'f'; c++ {
		t[c] = c - 'a' + 10
	}
	for c := byte('A'); c <= 'F'; c++ {
		t[c] = c - 'A' + 10
	}
	return
}()

// Unescape decodes the inside of a strace string literal (without the
// surrounding quotes) and appends the bytes to dst. With -xx every byte is
// `\xNN`; plain characters and the C escapes \n \t \r \v \f \a \b \e \\ \" \'
// \0 and \NNN (1-3 octal digits) are accepted as well.
func Unescape(dst, s []byte) ([]byte, error) {
	n := len(s)
	i := 0
	// Fast path for the -xx format: a run of `\xNN` groups.
	if n >= 4 && n%4 == 0 {
		base := len(dst)
		if cap(dst)-base < n/4 {
			nd := make([]byte, base, base+n/4)
			copy(nd, dst)
			dst = nd
		}
		out := dst[:base+n/4]
		o := base
		for ; i < n; i += 4 {
			g := s[i : i+4 : i+4]
			h, l := hexVal[g[2]], hexVal[g[3]]
			if g[0] != '\\' || g[1] != 'x' || h == 0xff || l == 0xff {
				break
			}
			out[o] = h<<4 | l
			o++
		}
		dst = out[:o]
		if i == n {
			return dst, nil
		}
	}
	for i < n {
		c := s[i]
		if c != '\\' {
			dst = append(dst, c)
			i++
			continue
		}
		if i+3 < n && s[i+1] == 'x' {
			h, l := hexVal[s[i+2]], hexVal[s[i+3]]
			if h != 0xff && l != 0xff {
				dst = append(dst, h<<4|l)
				i += 4
				continue
			}
		}
		i++
		if i >= n {
			return dst, fmt.Errorf("dangling backslash at end of string")
		}
		c = s[i]
		switch c {
		case 'x':
			// One or two hex digits (the two-digit case was handled above
			// unless the string is too short).
			j := i + 1
			v, k := 0, 0
			for j < n && k < 2 && hexVal[s[j]] != 0xff {
				v = v<<4 | int(hexVal[s[j]])
				j++
				k++
			}
			if k == 0 {
				return dst, fmt.Errorf("bad \\x escape at offset %d", i-1)
			}
			dst = append(dst, byte(v))
			i = j
		case 'n':
			dst = append(dst, '\n')
			i++
		case 't':
			dst = append(dst, '\t')
			i++
		case 'r':
			dst = append(dst, '\r')
			i++
		case 'v':
			dst = append(dst, '\v')
			i++
		case 'f':
			dst = append(dst, '\f')
			i++
		case 'a':
			dst = append(dst, 7)
			i++
		case 'b':
			dst = append(dst, 8)
			i++
		case 'e':
			dst = append(dst, 27)
			i++
		case '\\', '"', '\'':
			dst = append(dst, c)
			i++
		case '0', '1', '2', '3', '4', '5', '6', '7':
			v, k := 0, 0
			for i < n && k < 3 && s[i] >= '0' && s[i] <= '7' {
				v = v<<3 | int(s[i]-'0')
				i++
				k++
			}
			if v > 255 {
				return dst, fmt.Errorf("octal escape out of range at offset %d", i-k-1)
			}
			dst = append(dst, byte(v))
		default:
			return dst, fmt.Errorf("unknown escape \\%c at offset %d", c, i-1)
		}
	}
	return dst, nil
}
