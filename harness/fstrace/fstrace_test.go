package fstrace

import (
	"bytes"
	"fmt"
	"os"
	"os/exec"
	"path/filepath"
	"strings"
	"sync"
	"testing"
)

// ---------------------------------------------------------------------------
// Replayer.

func apply(t *testing.T, fs *FS, evs ...Event) {
	t.Helper()
	for _, e := range evs {
		if err := fs.Apply(e); err != nil {
			t.Fatalf("Apply(%s): %v", e, err)
		}
	}
}

func TestFSApply(t *testing.T) {
	fs := NewFS()
	apply(t, fs,
		Event{Kind: Create, Path: "a", Append: true},
		Event{Kind: Write, Path: "a", Data: []byte("hello"), Append: true, Offset: -1},
		Event{Kind: Marker, Data: []byte("B 1\n")},
		Event{Kind: DirSync},
		Event{Kind: Unsupported, Path: "a", Detail: "x"},
	)
	a := fs.Files["a"]
	if string(a.Data) != "hello" || a.Synced != 0 || a.ID == 0 {
		t.Fatalf("a = %+v", a)
	}
	apply(t, fs, Event{Kind: Fsync, Path: "a"})
	if a.Synced != 5 {
		t.Fatalf("Synced = %d", a.Synced)
	}
	apply(t, fs, Event{Kind: Write, Path: "a", Data: []byte(" world"), Append: true, Offset: -1})
	if string(a.Data) != "hello world" || a.Synced != 5 {
		t.Fatalf("a = %+v", a)
	}
	// Create on an existing name keeps the object; O_TRUNC empties it.
	apply(t, fs, Event{Kind: Create, Path: "a"})
	if fs.Files["a"] != a || string(a.Data) != "hello world" {
		t.Fatalf("create on existing: %+v", fs.Files["a"])
	}
	// Truncate below Synced lowers it, above extends with zeros.
	apply(t, fs, Event{Kind: Truncate, Path: "a", Size: 3})
	if string(a.Data) != "hel" || a.Synced != 3 {
		t.Fatalf("a = %+v", a)
	}
	apply(t, fs, Event{Kind: Truncate, Path: "a", Size: 6})
	if string(a.Data) != "hel\x00\x00\x00" || a.Synced != 3 {
		t.Fatalf("a = %+v", a)
	}
	// The bytes cut off by a truncate never come back.
	apply(t, fs, Event{Kind: Truncate, Path: "a", Size: 1}, Event{Kind: Truncate, Path: "a", Size: 4})
	if string(a.Data) != "h\x00\x00\x00" || a.Synced != 1 {
		t.Fatalf("a = %+v", a)
	}
	// Positional writes: overwrite, extend, gap.
	apply(t, fs,
		Event{Kind: Create, Path: "b", Excl: true},
		Event{Kind: Write, Path: "b", Data: []byte("0123456789"), Offset: 0},
		Event{Kind: Fsync, Path: "b"},
		Event{Kind: Write, Path: "b", Data: []byte("AB"), Offset: 8},
	)
	b := fs.Files["b"]
	if string(b.Data) != "01234567AB" || b.Synced != 8 {
		t.Fatalf("b = %+v", b)
	}
	apply(t, fs, Event{Kind: Write, Path: "b", Data: []byte("Z"), Offset: 14})
	if string(b.Data) != "01234567AB\x00\x00\x00\x00Z" || b.Synced != 8 {
		t.Fatalf("b = %+v", b)
	}
	apply(t, fs, Event{Kind: Truncate, Path: "b", Size: 2}, Event{Kind: Write, Path: "b", Data: []byte("Y"), Offset: 5})
	if string(b.Data) != "01\x00\x00\x00Y" {
		t.Fatalf("b = %q", b.Data)
	}
	apply(t, fs, Event{Kind: Write, Path: "b", Data: nil, Offset: 100})
	if len(b.Data) != 6 {
		t.Fatalf("empty write extended the file: %d", len(b.Data))
	}
	if a.ID == b.ID {
		t.Fatalf("ids not unique")
	}
	// Rename onto an existing name replaces it and keeps the id.
	apply(t, fs, Event{Kind: Rename, Path: "b", NewPath: "a"})
	if fs.Files["a"] != b || fs.Files["b"] != nil || len(fs.Files) != 1 {
		t.Fatalf("after rename: %v", fs.Names())
	}
	apply(t, fs, Event{Kind: Rename, Path: "a", NewPath: "a"})
	if fs.Files["a"] != b {
		t.Fatalf("self rename")
	}
	// Truncating open.
	apply(t, fs, Event{Kind: Fsync, Path: "a"}, Event{Kind: Open, Path: "a", Trunc: true})
	if len(b.Data) != 0 || b.Synced != 0 {
		t.Fatalf("after O_TRUNC: %+v", b)
	}
	apply(t, fs, Event{Kind: Write, Path: "a", Data: []byte("x"), Offset: 0}, Event{Kind: Fsync, Path: "a"}, Event{Kind: Create, Path: "a", Trunc: true})
	if len(b.Data) != 0 || b.Synced != 0 || fs.Files["a"] != b {
		t.Fatalf("after O_CREAT|O_TRUNC: %+v", b)
	}
	// Unlink and re-create: new id.
	apply(t, fs, Event{Kind: Unlink, Path: "a"}, Event{Kind: Create, Path: "a"})
	if fs.Files["a"].ID == b.ID || fs.Files["a"].ID == a.ID {
		t.Fatalf("id reused")
	}
}

func TestFSApplyErrors(t *testing.T) {
	fs := NewFS()
	apply(t, fs, Event{Kind: Create, Path: "a"})
	bad := []Event{
		{Kind: Write, Path: "missing", Data: []byte("x"), Append: true},
		{Kind: Write, Path: "a", Data: []byte("x"), Offset: -1},
		{Kind: Fsync, Path: "missing"},
		{Kind: Truncate, Path: "missing"},
		{Kind: Truncate, Path: "a", Size: -1},
		{Kind: Rename, Path: "missing", NewPath: "a"},
		{Kind: Rename, Path: "a", NewPath: ""},
		{Kind: Unlink, Path: "missing"},
		{Kind: Open, Path: "missing", Trunc: true},
		{Kind: Create, Path: "a", Excl: true},
		{Kind: Create, Path: ""},
		{Kind: Kind(99), Path: "a"},
	}
	for _, e := range bad {
		if err := fs.Apply(e); err == nil {
			t.Errorf("Apply(%s): no error", e)
		}
	}
	if len(fs.Files) != 1 || len(fs.Files["a"].Data) != 0 {
		t.Errorf("state changed by failing events: %v", fs.Names())
	}
}

func TestFSCloneMaterializeEqualLoad(t *testing.T) {
	fs := NewFS()
	apply(t, fs,
		Event{Kind: Create, Path: "a"},
		Event{Kind: Write, Path: "a", Data: []byte("hello"), Append: true},
		Event{Kind: Fsync, Path: "a"},
		Event{Kind: Create, Path: "empty"},
		Event{Kind: Create, Path: "b"},
		Event{Kind: Write, Path: "b", Data: bytes.Repeat([]byte{0, 0xff}, 5000), Append: true},
	)
	c := fs.Clone()
	apply(t, c, Event{Kind: Write, Path: "a", Data: []byte("!"), Append: true}, Event{Kind: Unlink, Path: "b"}, Event{Kind: Create, Path: "c"})
	if string(fs.Files["a"].Data) != "hello" || fs.Files["b"] == nil || fs.Files["c"] != nil {
		t.Fatalf("clone is not deep")
	}
	if c.Files["a"].ID != fs.Files["a"].ID || c.Files["a"].Synced != 5 {
		t.Fatalf("clone lost metadata: %+v", c.Files["a"])
	}
	apply(t, fs, Event{Kind: Create, Path: "d"})
	if c.Files["c"].ID != fs.Files["d"].ID {
		t.Fatalf("clone id counter: %d vs %d", c.Files["c"].ID, fs.Files["d"].ID)
	}

	dir := t.TempDir()
	if err := fs.Materialize(dir); err != nil {
		t.Fatal(err)
	}
	if err := fs.Materialize(dir); err == nil {
		t.Fatal("Materialize into a non-empty directory succeeded")
	}
	if err := fs.Materialize(filepath.Join(dir, "missing")); err == nil {
		t.Fatal("Materialize into a missing directory succeeded")
	}
	st, err := os.Stat(filepath.Join(dir, "a"))
	if err != nil || st.Mode().Perm() != 0o600 {
		t.Fatalf("mode: %v %v", st, err)
	}
	mustEqual := func(f *FS, want bool, frag string) {
		t.Helper()
		ok, diff, err := f.Equal(dir)
		if err != nil {
			t.Fatal(err)
		}
		if ok != want || !strings.Contains(diff, frag) {
			t.Fatalf("Equal = %v %q, want %v with %q", ok, diff, want, frag)
		}
	}
	mustEqual(fs, true, "")
	// .lock and sub-directories in the real directory are ignored.
	if err := os.WriteFile(filepath.Join(dir, LockName), []byte("1"), 0o600); err != nil {
		t.Fatal(err)
	}
	if err := os.Mkdir(filepath.Join(dir, "subdir"), 0o700); err != nil {
		t.Fatal(err)
	}
	mustEqual(fs, true, "")
	mustEqual(c, false, `"b" is in `)

	x := fs.Clone()
	apply(t, x, Event{Kind: Unlink, Path: "empty"})
	mustEqual(x, false, `"empty" is in `)
	x = fs.Clone()
	apply(t, x, Event{Kind: Create, Path: "zz"})
	mustEqual(x, false, `"zz" (0 bytes) is in the model`)
	x = fs.Clone()
	apply(t, x, Event{Kind: Write, Path: "b", Data: []byte{1}, Offset: 4000})
	mustEqual(x, false, `"b": first difference at offset 4000`)
	x = fs.Clone()
	apply(t, x, Event{Kind: Truncate, Path: "b", Size: 10})
	mustEqual(x, false, `"b": model has 10 bytes`)

	l, err := LoadFS(dir)
	if err != nil {
		t.Fatal(err)
	}
	mustEqual(l, true, "")
	if got, want := strings.Join(l.Names(), ","), strings.Join(fs.Names(), ","); got != want {
		t.Fatalf("LoadFS names %s, want %s", got, want)
	}
	ids := map[int]bool{}
	for n, f := range l.Files {
		if f.Synced != len(f.Data) || !bytes.Equal(f.Data, fs.Files[n].Data) || ids[f.ID] || f.ID == 0 {
			t.Fatalf("LoadFS %s: %+v", n, f)
		}
		ids[f.ID] = true
	}
	apply(t, l, Event{Kind: Create, Path: "new"})
	if ids[l.Files["new"].ID] {
		t.Fatalf("LoadFS id counter")
	}
	if _, err := LoadFS(filepath.Join(dir, "missing")); err == nil {
		t.Fatal("LoadFS of a missing directory succeeded")
	}
	if _, _, err := fs.Equal(filepath.Join(dir, "missing")); err == nil {
		t.Fatal("Equal with a missing directory succeeded")
	}
}

func TestEventString(t *testing.T) {
	cases := []struct {
		e    Event
		want string
	}{
		{Event{Kind: Write, Path: "00000000000000000000.log", Data: make([]byte, 92), Append: true, Offset: -1}, "write 00000000000000000000.log +92 (append)"},
		{Event{Kind: Write, Path: "x", Data: []byte("secret"), Offset: 7}, "write x +6 @7"},
		{Event{Kind: Create, Path: "x", Excl: true, Trunc: true, Append: true}, "create x [excl,trunc,append]"},
		{Event{Kind: Create, Path: "x"}, "create x"},
		{Event{Kind: Open, Path: "x", Trunc: true}, "open x [trunc]"},
		{Event{Kind: Fsync, Path: "x"}, "fsync x"},
		{Event{Kind: DirSync}, "dirsync"},
		{Event{Kind: Truncate, Path: "x", Size: 12}, "truncate x 12"},
		{Event{Kind: Rename, Path: "x", NewPath: "y"}, "rename x -> y"},
		{Event{Kind: Unlink, Path: "x"}, "unlink x"},
		{Event{Kind: Marker, Data: []byte("B 12\n")}, "marker +5"},
		{Event{Kind: Unsupported, Path: "x", Detail: "why"}, "unsupported x: why"},
		{Event{Kind: Unsupported, Detail: "why"}, "unsupported: why"},
	}
	for _, c := range cases {
		if got := c.e.String(); got != c.want {
			t.Errorf("got %q, want %q", got, c.want)
		}
	}
	if Kind(42).String() != "kind(42)" || Write.String() != "write" {
		t.Errorf("Kind.String")
	}
}

// ---------------------------------------------------------------------------
// End-to-end self-test under strace.

const stracePath = "/usr/bin/strace"

// straceArgs is the exact command line the harness uses.
func straceArgs(traceFile string, prog ...string) []string {
	return append([]string{
		"-f", "-y", "-xx", "-s", "1048576", "--seccomp-bpf", "-o", traceFile,
		"-e", "trace=openat,write,pwrite64,fsync,fdatasync,ftruncate,truncate,renameat,renameat2,rename,unlinkat,unlink,mkdirat,mkdir,close,utimensat,copy_file_range,sendfile",
	}, prog...)
}

var selftest struct {
	once sync.Once
	dir  string
	bin  string
	err  error
}

func TestMain(m *testing.M) {
	code := m.Run()
	if selftest.dir != "" {
		os.RemoveAll(selftest.dir)
	}
	os.Exit(code)
}

// scratchBase prefers /dev/shm (tmpfs: fsync is cheap there).
func scratchBase() string {
	if st, err := os.Stat("/dev/shm"); err == nil && st.IsDir() {
		return "/dev/shm"
	}
	return os.TempDir()
}

// selftestBinary builds cmd/fstrace-selftest once per test process.
func selftestBinary(t *testing.T) string {
	t.Helper()
	if st, err := os.Stat(stracePath); err != nil || st.Mode()&0o111 == 0 {
		t.Skipf("%s is not executable", stracePath)
	}
	selftest.once.Do(func() {
		goTool, err := exec.LookPath("go") // `go test` puts its own GOROOT/bin first in PATH
		if err != nil {
			if goTool, err = exec.LookPath("go1.26.8"); err != nil {
				selftest.err = fmt.Errorf("no go tool in PATH")
				return
			}
		}
		dir, err := os.MkdirTemp(scratchBase(), "fstrace-bin-")
		if err != nil {
			selftest.err = err
			return
		}
		selftest.dir = dir
		selftest.bin = filepath.Join(dir, "fstrace-selftest")
		cmd := exec.Command(goTool, "build", "-o", selftest.bin, "verifharness/cmd/fstrace-selftest")
		if out, err := cmd.CombinedOutput(); err != nil {
			selftest.err = fmt.Errorf("%s build: %v\n%s", goTool, err, out)
		}
	})
	if selftest.err != nil {
		t.Fatal(selftest.err)
	}
	return selftest.bin
}

// runTraced runs `selftest <mode> root marker seed` under strace in a fresh
// scratch directory and returns the paths.
func runTraced(t *testing.T, mode string, seed int) (trace, root, marker string) {
	t.Helper()
	bin := selftestBinary(t)
	dir, err := os.MkdirTemp(scratchBase(), "fstrace-test-")
	if err != nil {
		t.Fatal(err)
	}
	t.Cleanup(func() {
		if t.Failed() {
			t.Logf("keeping %s", dir)
			return
		}
		os.RemoveAll(dir)
	})
	if dir, err = filepath.EvalSymlinks(dir); err != nil {
		t.Fatal(err)
	}
	trace, root, marker = filepath.Join(dir, "trace"), filepath.Join(dir, "root"), filepath.Join(dir, "marker")
	cmd := exec.Command(stracePath, straceArgs(trace, bin, mode, root, marker, fmt.Sprint(seed))...)
	cmd.Dir = dir
	if out, err := cmd.CombinedOutput(); err != nil {
		t.Fatalf("strace: %v\n%s", err, out)
	}
	return trace, root, marker
}

func TestStraceSelfTest(t *testing.T) {
	selftestBinary(t)
	for seed := 1; seed <= 6; seed++ {
		t.Run(fmt.Sprintf("seed%d", seed), func(t *testing.T) {
			t.Parallel()
			trace, root, marker := runTraced(t, "workload", seed)
			rep, err := SelfCheck(trace, root, marker)
			if rep != nil && rep.Trace != nil {
				t.Logf("\n%s", rep)
			}
			if err != nil {
				t.Fatalf("MISMATCH: %v", err)
			}
			tr := rep.Trace
			// The workload exercises every kind except Unsupported.
			counts := tr.CountByKind()
			for k := Kind(0); k < numKinds; k++ {
				if k != Unsupported && counts[k] == 0 {
					t.Errorf("no %s event", k)
				}
			}
			if tr.FailedCalls < 4 {
				t.Errorf("FailedCalls = %d, want >= 4", tr.FailedCalls)
			}
			if tr.UnfinishedCalls != 0 {
				t.Errorf("UnfinishedCalls = %d", tr.UnfinishedCalls)
			}
			checkPrefixes(t, tr, root)
		})
	}
}

// checkPrefixes replays the trace event by event and checks invariants that
// must hold after every prefix; at a few cut points the model is
// materialized, loaded back and compared.
func checkPrefixes(t *testing.T, tr *Trace, root string) {
	t.Helper()
	fs := NewFS()
	lastLine := 0
	cuts := map[int]bool{0: true, len(tr.Events) / 3: true, 2 * len(tr.Events) / 3: true, len(tr.Events) - 1: true}
	for i, e := range tr.Events {
		if e.Line < lastLine {
			t.Fatalf("event %d: line %d after line %d", i, e.Line, lastLine)
		}
		lastLine = e.Line
		if err := fs.Apply(e); err != nil {
			t.Fatalf("prefix %d: %v", i, err)
		}
		for n, f := range fs.Files {
			if f.Synced < 0 || f.Synced > len(f.Data) {
				t.Fatalf("prefix %d: %s: Synced %d, len %d", i, n, f.Synced, len(f.Data))
			}
			if n == LockName {
				t.Fatalf("prefix %d: %s in the model", i, n)
			}
		}
		if cuts[i] {
			dir := t.TempDir()
			c := fs.Clone()
			if err := c.Materialize(dir); err != nil {
				t.Fatal(err)
			}
			if ok, diff, err := fs.Equal(dir); err != nil || !ok {
				t.Fatalf("prefix %d: materialized image differs: %s %v", i, diff, err)
			}
		}
	}
	l, err := LoadFS(root)
	if err != nil {
		t.Fatal(err)
	}
	if len(l.Files) != len(fs.Files) {
		t.Fatalf("LoadFS(root) has %d files, model %d", len(l.Files), len(fs.Files))
	}
}

func TestStraceUnsupportedCopy(t *testing.T) {
	trace, root, marker := runTraced(t, "workload-copy", 7)
	_, err := SelfCheck(trace, root, marker)
	if err == nil || !strings.Contains(err.Error(), "copy_file_range") {
		t.Fatalf("SelfCheck: %v, want an unsupported copy_file_range", err)
	}
	tr, err := Parse(trace, root, marker)
	if err != nil {
		t.Fatal(err)
	}
	var un []Event
	for _, e := range tr.Events {
		if e.Kind == Unsupported {
			un = append(un, e)
		}
	}
	if len(un) != 1 || un[0].Path != "copied.log" {
		t.Fatalf("unsupported events: %v", un)
	}
	// Everything except the copied data is still reconstructed.
	fs := NewFS()
	for _, e := range tr.Events {
		if err := fs.Apply(e); err != nil {
			t.Fatal(err)
		}
	}
	if f := fs.Files["copied.log"]; f == nil || len(f.Data) != 0 {
		t.Fatalf("copied.log in the model: %+v", f)
	}
	delete(fs.Files, "copied.log")
	if err := os.Remove(filepath.Join(root, "copied.log")); err != nil {
		t.Fatal(err)
	}
	if ok, diff, err := fs.Equal(root); err != nil || !ok {
		t.Fatalf("Equal: %v %s %v", ok, diff, err)
	}
}

// BenchmarkParse measures the parse throughput on a real trace.
func BenchmarkParse(b *testing.B) {
	if st, err := os.Stat(stracePath); err != nil || st.Mode()&0o111 == 0 {
		b.Skipf("%s is not executable", stracePath)
	}
	dir, err := os.MkdirTemp(scratchBase(), "fstrace-bench-")
	if err != nil {
		b.Fatal(err)
	}
	defer os.RemoveAll(dir)
	bin := filepath.Join(dir, "fstrace-selftest")
	if out, err := exec.Command("go", "build", "-o", bin, "verifharness/cmd/fstrace-selftest").CombinedOutput(); err != nil {
		b.Fatalf("build: %v\n%s", err, out)
	}
	trace, root, marker := filepath.Join(dir, "trace"), filepath.Join(dir, "root"), filepath.Join(dir, "marker")
	cmd := exec.Command(stracePath, straceArgs(trace, bin, "workload", root, marker, "1")...)
	if out, err := cmd.CombinedOutput(); err != nil {
		b.Fatalf("strace: %v\n%s", err, out)
	}
	st, err := os.Stat(trace)
	if err != nil {
		b.Fatal(err)
	}
	b.SetBytes(st.Size())
	b.ResetTimer()
	for i := 0; i < b.N; i++ {
		tr, err := Parse(trace, root, marker)
		if err != nil || tr.SkippedLines != 0 {
			b.Fatalf("%v %v", tr, err)
		}
	}
}
