package fstrace

import (
	"bufio"
	"bytes"
	"fmt"
	"io"
	"os"
	"path"
	"strconv"
	"strings"
)

// MaxLineBytes is the longest trace line Parse accepts. A 1 MiB write buffer
// printed with -xx takes 4 MiB plus the fd annotation.
const MaxLineBytes = 8 << 20

// LockName is the name of a file inside root that is ignored entirely.
const LockName = ".lock"

// Trace is the result of Parse.
type Trace struct {
	Events       []Event
	FailedCalls  int // syscalls that returned an error (no event is generated for them)
	SkippedLines int // lines that could not be parsed at all (should be 0; >0 means inconclusive)

	// Additions to the minimal API:

	// Lines is the number of lines read from the trace file.
	Lines int
	// UnfinishedCalls counts syscalls whose outcome is unknown: they were
	// entered but the thread exited or was killed before completing them
	// (`<unfinished ...>` never resumed, `= ?`, `= -1 (errno N)`). Those
	// that could have changed a root file also produce an Unsupported event.
	UnfinishedCalls int
	// Errors describes every skipped line and every event-level parse
	// problem (abbreviated buffer etc.); at most maxErrors entries are kept.
	Errors []string
}

const maxErrors = 64

// CountByKind returns the number of events of each kind.
func (t *Trace) CountByKind() map[Kind]int {
	m := make(map[Kind]int)
	for i := range t.Events {
		m[t.Events[i].Kind]++
	}
	return m
}

// Count returns the number of events of kind k.
func (t *Trace) Count(k Kind) int {
	n := 0
	for i := range t.Events {
		if t.Events[i].Kind == k {
			n++
		}
	}
	return n
}

// Parse reads the strace output file. root is the absolute path of the log
// directory (no trailing slash); marker is the absolute path of the marker
// file (outside root). Both must be canonical (no symlinks): `strace -y`
// prints fd paths the way /proc/<pid>/fd shows them.
func Parse(traceFile, root, marker string) (*Trace, error) {
	f, err := os.Open(traceFile)
	if err != nil {
		return nil, err
	}
	defer f.Close()
	tr, err := ParseReader(f, root, marker)
	if err != nil {
		return tr, fmt.Errorf("%s: %w", traceFile, err)
	}
	return tr, nil
}

// ParseReader is Parse on an io.Reader.
func ParseReader(r io.Reader, root, marker string) (*Trace, error) {
	if !path.IsAbs(root) {
		return nil, fmt.Errorf("fstrace: root %q is not absolute", root)
	}
	root = path.Clean(root)
	if marker != "" {
		if !path.IsAbs(marker) {
			return nil, fmt.Errorf("fstrace: marker %q is not absolute", marker)
		}
		marker = path.Clean(marker)
	}
	p := &parser{
		root:    root,
		marker:  marker,
		tr:      &Trace{},
		pending: make(map[int]*pendingCall),
		fds:     make(map[fdKey]*fdState),
	}
	// Byte patterns showing that a raw line mentions root or a file in it,
	// both in plain and in -xx form: `root/`, `root>` (fd annotation) and
	// `root"` (path argument).
	hr := hexEscape(root)
	for _, s := range []string{root + "/", root + ">", root + "\"", hr + hexEscape("/"), hr + ">", hr + "\""} {
		p.mention = append(p.mention, []byte(s))
	}

	sc := bufio.NewScanner(r)
	sc.Buffer(make([]byte, 1<<20), MaxLineBytes)
	for sc.Scan() {
		p.lineNo++
		p.feed(sc.Bytes())
	}
	p.tr.Lines = p.lineNo
	if err := sc.Err(); err != nil {
		return p.tr, fmt.Errorf("fstrace: line %d: %w", p.lineNo+1, err)
	}
	p.flushAllPending()
	return p.tr, nil
}

func hexEscape(s string) string {
	var b strings.Builder
	for i := 0; i < len(s); i++ {
		fmt.Fprintf(&b, "\\x%02x", s[i])
	}
	return b.String()
}

// ---------------------------------------------------------------------------

// pclass classifies an absolute path relative to root/marker.
type pclass int

const (
	pcOther    pclass = iota // not our business
	pcRootDir                // the root directory itself
	pcRootFile               // direct child of root (not .lock)
	pcLock                   // root/.lock
	pcSub                    // deeper than a direct child
	pcMarker                 // the marker file
)

type fdKey struct {
	group int // thread group (process); see parser.group
	fd    int
}

// fdState is what we know about one open file description on a root file or
// the root directory.
type fdState struct {
	name   string // current base name of the object (follows renames); "" for the root directory
	dir    bool   // the root directory
	append bool   // O_APPEND
	pos    int64  // file position (non-append fds)
	gone   bool   // the object was unlinked, replaced by a rename or moved out of root
}

type pendingCall struct {
	buf  []byte // the call text up to (not including) " <unfinished ...>"
	line int    // line number of the unfinished line
	// Snapshot of the fd table entry for the first argument at entry time.
	hasFD     bool
	fd        int
	st        *fdState
	entryName string
	entryGone bool
}

type parser struct {
	root, marker string
	mention      [][]byte // byte patterns that indicate that a line mentions root
	tr           *Trace
	lineNo       int
	pending      map[int]*pendingCall
	fds          map[fdKey]*fdState
}

// group maps a tid to its thread group. The trace set contains no
// clone/fork/execve, so thread groups cannot be reconstructed: all tids are
// treated as threads of one process (true for a single Go workload process).
func (p *parser) group(tid int) int { return 0 }

func (p *parser) errorf(line int, format string, args ...any) {
	if len(p.tr.Errors) < maxErrors {
		p.tr.Errors = append(p.tr.Errors, fmt.Sprintf("line %d: ", line)+fmt.Sprintf(format, args...))
	}
}

func (p *parser) skip(line int, format string, args ...any) {
	p.tr.SkippedLines++
	p.errorf(line, format, args...)
}

func (p *parser) emit(e Event) {
	e.Seq = len(p.tr.Events)
	p.tr.Events = append(p.tr.Events, e)
}

func (p *parser) unsupported(line int, name, detail string) {
	p.emit(Event{Line: line, Kind: Unsupported, Path: name, Detail: detail})
}

var (
	sufUnfinished = []byte(" <unfinished ...>")
	preResumed    = []byte("<... ")
	midResumed    = []byte(" resumed>")
)

// feed handles one line of the trace file.
func (p *parser) feed(b []byte) {
	// Strip a trailing CR, just in case.
	if n := len(b); n > 0 && b[n-1] == '\r' {
		b = b[:n-1]
	}
	i := 0
	for i < len(b) && (b[i] == ' ' || b[i] == '\t') {
		i++
	}
	if i == len(b) {
		return // empty line
	}
	// "[pid 1234] " prefix (strace writing to stderr) is tolerated.
	if bytes.HasPrefix(b[i:], []byte("[pid")) {
		i += 4
		for i < len(b) && b[i] == ' ' {
			i++
		}
	}
	tid := 0
	start := i
	for i < len(b) && b[i] >= '0' && b[i] <= '9' {
		tid = tid*10 + int(b[i]-'0')
		i++
	}
	if i > start {
		if i < len(b) && b[i] == ']' {
			i++
		}
		if i < len(b) && b[i] != ' ' && b[i] != '\t' {
			p.skip(p.lineNo, "garbage after pid: %s", clip(b))
			return
		}
	}
	for i < len(b) && (b[i] == ' ' || b[i] == '\t') {
		i++
	}
	rest := b[i:]
	if len(rest) == 0 {
		p.skip(p.lineNo, "no syscall on line: %s", clip(b))
		return
	}
	switch rest[0] {
	case '+':
		// "+++ exited with 0 +++", "+++ killed by SIGKILL +++"
		if bytes.HasPrefix(rest, []byte("+++ ")) {
			p.flushPending(tid)
			return
		}
	case '-':
		// "--- SIGURG {...} ---", "--- stopped by SIGSTOP ---"
		if bytes.HasPrefix(rest, []byte("--- ")) {
			return
		}
	case '<':
		if bytes.HasPrefix(rest, preResumed) {
			k := bytes.Index(rest, midResumed)
			if k < 0 {
				p.skip(p.lineNo, "malformed resumed line: %s", clip(b))
				return
			}
			name := rest[len(preResumed):k]
			tail := rest[k+len(midResumed):]
			pc := p.pending[tid]
			if pc == nil {
				p.skip(p.lineNo, "resumed %s without unfinished call for tid %d", name, tid)
				return
			}
			if !bytes.HasPrefix(pc.buf, name) || len(pc.buf) <= len(name) || pc.buf[len(name)] != '(' {
				p.skip(p.lineNo, "resumed %s does not match unfinished call %s of tid %d", name, clip(pc.buf), tid)
				delete(p.pending, tid)
				return
			}
			delete(p.pending, tid)
			if bytes.HasSuffix(tail, sufUnfinished) {
				// "<... x resumed> <unfinished ...>) = ?" does not happen in
				// this position, but a resumed line may be cut again.
				pc.buf = append(pc.buf, tail[:len(tail)-len(sufUnfinished)]...)
				p.pending[tid] = pc
				return
			}
			pc.buf = append(pc.buf, tail...)
			p.call(tid, pc.buf, p.lineNo, pc)
			return
		}
	}
	if bytes.HasSuffix(rest, sufUnfinished) {
		if old := p.pending[tid]; old != nil {
			// Cannot happen: a thread runs one syscall at a time.
			p.neverFinished(old, "superseded by another call of the same thread")
		}
		body := rest[:len(rest)-len(sufUnfinished)]
		pc := &pendingCall{buf: append(make([]byte, 0, len(body)+64), body...), line: p.lineNo}
		p.snapshotEntry(tid, pc)
		p.pending[tid] = pc
		return
	}
	p.call(tid, rest, p.lineNo, nil)
}

func clip(b []byte) string {
	if len(b) > 200 {
		return string(b[:200]) + "..."
	}
	return string(b)
}

// snapshotEntry records, for an unfinished call whose first argument is an
// fd, the fd table entry as of syscall entry. An unfinished close forgets
// the fd right away: the fd number can be reused by another thread before
// the close is reported as finished.
func (p *parser) snapshotEntry(tid int, pc *pendingCall) {
	k := bytes.IndexByte(pc.buf, '(')
	if k <= 0 {
		return
	}
	name := string(pc.buf[:k])
	switch name {
	case "write", "pwrite64", "fsync", "fdatasync", "ftruncate", "close":
	default:
		return
	}
	c := cur{b: pc.buf, i: k + 1}
	fd, ok := c.fdNumber()
	if !ok {
		return
	}
	key := fdKey{p.group(tid), fd}
	st := p.fds[key]
	pc.hasFD, pc.fd, pc.st = true, fd, st
	if st != nil {
		pc.entryName, pc.entryGone = st.name, st.gone
	}
	if name == "close" {
		delete(p.fds, key)
	}
	if (name == "fsync" || name == "fdatasync") && st != nil && !st.gone && !st.dir && st.name != "" {
		p.emit(Event{Line: pc.line, Kind: FsyncStart, Path: st.name})
	}
}

func (p *parser) flushPending(tid int) {
	if pc := p.pending[tid]; pc != nil {
		delete(p.pending, tid)
		p.neverFinished(pc, "thread exited before the call returned")
	}
}

func (p *parser) flushAllPending() {
	// Deterministic order: by line number of the unfinished line.
	for len(p.pending) > 0 {
		best := -1
		for tid, pc := range p.pending {
			if best < 0 || pc.line < p.pending[best].line {
				best = tid
			}
		}
		pc := p.pending[best]
		delete(p.pending, best)
		p.neverFinished(pc, "trace ended before the call returned")
	}
}

// neverFinished handles a call whose outcome is unknown.
func (p *parser) neverFinished(pc *pendingCall, why string) {
	p.unknownOutcome(pc.buf, p.lineNo, why)
}

func (p *parser) unknownOutcome(call []byte, line int, why string) {
	p.tr.UnfinishedCalls++
	k := bytes.IndexByte(call, '(')
	if k <= 0 {
		return
	}
	name := string(call[:k])
	switch name {
	case "close", "utimensat":
		return // no effect on file contents
	case "openat", "open":
		if !bytes.Contains(call, []byte("O_CREAT")) && !bytes.Contains(call, []byte("O_TRUNC")) {
			return
		}
	}
	if p.mentionsRoot(call) {
		p.unsupported(line, "", fmt.Sprintf("%s with unknown outcome (%s)", name, why))
	}
}

func (p *parser) mentionsRoot(call []byte) bool {
	for _, m := range p.mention {
		if bytes.Contains(call, m) {
			return true
		}
	}
	return false
}

// ---------------------------------------------------------------------------

type retKind int

const (
	retOK retKind = iota
	retFail
	retUnknown
)

type retInfo struct {
	kind retKind
	val  int64
	path string // fd annotation of the return value (openat)
}

func parseRet(b []byte) (retInfo, bool) {
	b = bytes.TrimLeft(b, " ")
	if len(b) == 0 {
		return retInfo{}, false
	}
	switch {
	case b[0] == '?':
		// "= ?" (thread vanished) or "= ? ERESTARTSYS (To be restarted ...)".
		if bytes.Contains(b, []byte("ERESTART")) {
			return retInfo{kind: retFail}, true
		}
		return retInfo{kind: retUnknown}, true
	case b[0] == '-':
		// "-1 ENOENT (No such file or directory)" is a failure;
		// "-1 (errno 18446744073709551598)" is what strace 6.1 prints for a
		// call that was cut short by SIGKILL: the outcome is unknown.
		j := 1
		for j < len(b) && b[j] >= '0' && b[j] <= '9' {
			j++
		}
		if j+1 < len(b) && b[j] == ' ' && b[j+1] >= 'A' && b[j+1] <= 'Z' {
			return retInfo{kind: retFail}, true
		}
		return retInfo{kind: retUnknown}, true
	case b[0] >= '0' && b[0] <= '9':
		j := 0
		for j < len(b) && ((b[j] >= '0' && b[j] <= '9') || b[j] == 'x' || (b[j] >= 'a' && b[j] <= 'f')) {
			j++
		}
		v, err := strconv.ParseInt(string(b[:j]), 0, 64)
		if err != nil {
			return retInfo{}, false
		}
		ri := retInfo{kind: retOK, val: v}
		if j < len(b) && b[j] == '<' {
			k := bytes.IndexByte(b[j:], '>')
			if k < 0 {
				return retInfo{}, false
			}
			pb, err := Unescape(nil, b[j+1:j+k])
			if err != nil {
				return retInfo{}, false
			}
			ri.path = string(pb)
		}
		return ri, true
	}
	return retInfo{}, false
}

var sepRet = []byte(" = ")

// call handles one complete syscall record `name(args) = ret`.
func (p *parser) call(tid int, b []byte, line int, pre *pendingCall) {
	k := bytes.IndexByte(b, '(')
	if k <= 0 || !isIdent(b[:k]) {
		p.skip(line, "not a syscall record: %s", clip(b))
		return
	}
	name := string(b[:k])
	r := bytes.LastIndex(b, sepRet)
	if r < 0 {
		p.skip(line, "no return value: %s", clip(b))
		return
	}
	e := r
	for e > k && b[e-1] == ' ' {
		e--
	}
	if e <= k || b[e-1] != ')' {
		p.skip(line, "no closing parenthesis before return value: %s", clip(b))
		return
	}
	args := b[k+1 : e-1]
	ret, ok := parseRet(b[r+len(sepRet):])
	if !ok {
		p.skip(line, "unparsable return value: %s", clip(b[r:]))
		return
	}
	switch ret.kind {
	case retFail:
		p.tr.FailedCalls++
		return
	case retUnknown:
		if name == "close" && pre == nil {
			if fd, ok := (&cur{b: args}).fdNumber(); ok {
				delete(p.fds, fdKey{p.group(tid), fd})
			}
		}
		p.unknownOutcome(b[:e], line, "return value "+strings.TrimSpace(string(clipBytes(b[r+len(sepRet):], 60))))
		return
	}
	c := &cur{b: args}
	var perr error
	switch name {
	case "openat":
		perr = p.doOpen(tid, c, true, ret, line)
	case "open":
		perr = p.doOpen(tid, c, false, ret, line)
	case "write":
		perr = p.doWrite(tid, c, false, ret, line, pre)
	case "pwrite64":
		perr = p.doWrite(tid, c, true, ret, line, pre)
	case "fsync", "fdatasync":
		perr = p.doSync(tid, c, line, pre)
	case "ftruncate":
		perr = p.doFtruncate(tid, c, line, pre)
	case "truncate":
		perr = p.doTruncate(c, line)
	case "rename":
		perr = p.doRename(c, false, false, line)
	case "renameat":
		perr = p.doRename(c, true, false, line)
	case "renameat2":
		perr = p.doRename(c, true, true, line)
	case "unlink":
		perr = p.doUnlink(c, false, line)
	case "unlinkat":
		perr = p.doUnlink(c, true, line)
	case "mkdir":
		perr = p.doMkdir(c, false, line)
	case "mkdirat":
		perr = p.doMkdir(c, true, line)
	case "close":
		if pre == nil { // an unfinished close was handled at entry
			fd, ok := c.fdNumber()
			if !ok {
				perr = fmt.Errorf("bad fd")
			} else {
				delete(p.fds, fdKey{p.group(tid), fd})
			}
		}
	case "utimensat":
		// Time stamps are not part of the model.
	case "copy_file_range":
		perr = p.doCopy(c, 2, ret, line, name)
	case "sendfile":
		perr = p.doCopy(c, 0, ret, line, name)
	default:
		if p.mentionsRoot(b) {
			p.unsupported(line, "", "unmodelled syscall "+name)
		}
	}
	if perr != nil {
		p.skip(line, "%s: %v: %s", name, perr, clip(b))
	}
}

func clipBytes(b []byte, n int) []byte {
	if len(b) > n {
		return b[:n]
	}
	return b
}

func isIdent(b []byte) bool {
	for _, c := range b {
		if !(c >= 'a' && c <= 'z' || c >= 'A' && c <= 'Z' || c >= '0' && c <= '9' || c == '_') {
			return false
		}
	}
	return len(b) > 0
}

// ---------------------------------------------------------------------------
// Path classification.

func (p *parser) classify(abs string) (pclass, string) {
	if abs == p.root {
		return pcRootDir, ""
	}
	if p.marker != "" && abs == p.marker {
		return pcMarker, ""
	}
	if len(abs) > len(p.root)+1 && abs[len(p.root)] == '/' && abs[:len(p.root)] == p.root {
		base := abs[len(p.root)+1:]
		if strings.IndexByte(base, '/') >= 0 {
			return pcSub, ""
		}
		if base == LockName {
			return pcLock, base
		}
		return pcRootFile, base
	}
	return pcOther, ""
}

// classifyArg classifies a path argument; relative paths are resolved
// against the annotated path of the directory fd (dir), which may be empty.
func (p *parser) classifyArg(dir string, arg []byte, null bool) (pclass, string) {
	var abs string
	switch {
	case null || len(arg) == 0:
		// NULL or "" (AT_EMPTY_PATH): the directory fd itself.
		if dir == "" {
			return pcOther, ""
		}
		abs = dir
	case arg[0] == '/':
		abs = path.Clean(string(arg))
	default:
		if dir == "" {
			return pcOther, ""
		}
		abs = path.Clean(dir + "/" + string(arg))
	}
	return p.classify(abs)
}

// pathArg parses `[dirfd, ]"path"` and classifies it.
func (p *parser) pathArg(c *cur, hasDirfd bool) (pclass, string, error) {
	dir := ""
	if hasDirfd {
		_, d, _, ok := c.fd()
		if !ok {
			return 0, "", fmt.Errorf("bad directory fd")
		}
		dir = d
		if !c.comma() {
			return 0, "", fmt.Errorf("missing path argument")
		}
	}
	raw, abbrev, null, ok := c.str()
	if !ok {
		return 0, "", fmt.Errorf("bad path argument")
	}
	if abbrev {
		return 0, "", fmt.Errorf("abbreviated path argument")
	}
	arg, err := Unescape(nil, raw)
	if err != nil {
		return 0, "", fmt.Errorf("path argument: %v", err)
	}
	cls, base := p.classifyArg(dir, arg, null)
	return cls, base, nil
}

// ---------------------------------------------------------------------------
// Syscall handlers. A returned error means the line could not be parsed.

func hasFlag(flags []byte, f string) bool {
	for len(flags) > 0 {
		var t []byte
		if k := bytes.IndexByte(flags, '|'); k >= 0 {
			t, flags = flags[:k], flags[k+1:]
		} else {
			t, flags = flags, nil
		}
		if string(bytes.TrimSpace(t)) == f {
			return true
		}
	}
	return false
}

func (p *parser) doOpen(tid int, c *cur, hasDirfd bool, ret retInfo, line int) error {
	cls, base, err := p.pathArg(c, hasDirfd)
	if err != nil {
		return err
	}
	if !c.comma() {
		return fmt.Errorf("missing flags")
	}
	flags := c.tok()
	if cls == pcOther && ret.path != "" {
		// The argument may have gone through a symlink or an unannotated
		// directory fd; the annotation of the returned fd is canonical.
		rp := strings.TrimSuffix(ret.path, " (deleted)")
		cls, base = p.classify(rp)
	}
	key := fdKey{p.group(tid), int(ret.val)}
	switch cls {
	case pcRootDir:
		if hasFlag(flags, "O_TMPFILE") {
			p.unsupported(line, "", "openat with O_TMPFILE in root")
			return nil
		}
		p.fds[key] = &fdState{dir: true}
	case pcRootFile:
		if hasFlag(flags, "O_PATH") {
			return nil
		}
		creat := hasFlag(flags, "O_CREAT")
		excl := hasFlag(flags, "O_EXCL")
		trunc := hasFlag(flags, "O_TRUNC")
		app := hasFlag(flags, "O_APPEND")
		p.fds[key] = &fdState{name: base, append: app}
		switch {
		case creat:
			p.emit(Event{Line: line, Kind: Create, Path: base, Excl: excl, Trunc: trunc, Append: app})
		case trunc:
			p.emit(Event{Line: line, Kind: Open, Path: base, Trunc: true, Append: app})
		}
	default:
		// A stale entry for a reused fd number must not survive.
		delete(p.fds, key)
	}
	return nil
}

type fdStatus int

const (
	fdTracked   fdStatus = iota // name is the tracked current name
	fdUntracked                 // no openat seen for this fd; name is the annotated one
	fdMismatch                  // tracking and annotation disagree
	fdGoneNow                   // the object disappeared while the call was in flight
)

// resolveFD determines which root file a call on fd refers to. annot is the
// base name from the -y annotation (taken by strace at syscall entry).
func (p *parser) resolveFD(tid, fd int, annot string, pre *pendingCall) (string, *fdState, fdStatus) {
	var st *fdState
	var entryName string
	var entryGone bool
	if pre != nil && pre.hasFD && pre.fd == fd {
		st, entryName, entryGone = pre.st, pre.entryName, pre.entryGone
	} else {
		st = p.fds[fdKey{p.group(tid), fd}]
		if st != nil {
			entryName, entryGone = st.name, st.gone
		}
	}
	if st == nil {
		return annot, nil, fdUntracked
	}
	if st.dir || entryGone || entryName != annot {
		return annot, st, fdMismatch
	}
	if st.gone {
		return st.name, st, fdGoneNow
	}
	return st.name, st, fdTracked
}

func (p *parser) doWrite(tid int, c *cur, positional bool, ret retInfo, line int, pre *pendingCall) error {
	fd, fpath, deleted, ok := c.fd()
	if !ok {
		return fmt.Errorf("bad fd")
	}
	cls, base := p.classify(fpath)
	if cls != pcMarker && (cls != pcRootFile || deleted) {
		return nil
	}
	sys := "write"
	if positional {
		sys = "pwrite64"
	}
	if !c.comma() {
		return fmt.Errorf("missing buffer")
	}
	raw, abbrev, null, ok := c.str()
	if !ok || null {
		return fmt.Errorf("bad buffer")
	}
	if !c.comma() {
		return fmt.Errorf("missing count")
	}
	if _, ok := c.int(); !ok {
		return fmt.Errorf("bad count")
	}
	var off int64
	if positional {
		if !c.comma() {
			return fmt.Errorf("missing offset")
		}
		if off, ok = c.int(); !ok {
			return fmt.Errorf("bad offset")
		}
	}
	n := ret.val
	var data []byte
	bad := ""
	if d, err := Unescape(make([]byte, 0, len(raw)/4+4), raw); err != nil {
		bad = fmt.Sprintf("%s buffer: %v", sys, err)
	} else if int64(len(d)) < n {
		if abbrev {
			bad = fmt.Sprintf("%s buffer abbreviated by strace: %d of %d bytes", sys, len(d), n)
		} else {
			bad = fmt.Sprintf("%s buffer shorter than return value: %d < %d", sys, len(d), n)
		}
	} else {
		data = d[:n:n]
	}
	if cls == pcMarker {
		if bad != "" {
			p.errorf(line, "marker: %s", bad)
			p.unsupported(line, "", "marker: "+bad)
			return nil
		}
		p.emit(Event{Line: line, Kind: Marker, Data: data})
		return nil
	}
	name, st, status := p.resolveFD(tid, fd, base, pre)
	if bad != "" {
		p.errorf(line, "%s: %s", name, bad)
		p.unsupported(line, name, bad)
		return nil
	}
	switch status {
	case fdUntracked:
		p.unsupported(line, name, fmt.Sprintf("%s on fd %d that was not opened in the trace (open flags and position unknown)", sys, fd))
		return nil
	case fdMismatch:
		p.unsupported(line, name, fmt.Sprintf("%s on fd %d: annotated path %q disagrees with the tracked fd (%s)", sys, fd, base, st.describe()))
		return nil
	case fdGoneNow:
		return nil
	}
	ev := Event{Line: line, Kind: Write, Path: name, Data: data}
	switch {
	case st.append:
		// Linux appends even for pwrite64 on an O_APPEND fd.
		ev.Append, ev.Offset = true, -1
	case positional:
		ev.Offset = off
	default:
		ev.Offset = st.pos
		st.pos += n
	}
	p.emit(ev)
	return nil
}

func (st *fdState) describe() string {
	switch {
	case st.dir:
		return "root directory"
	case st.gone:
		return fmt.Sprintf("%q, unlinked or replaced", st.name)
	}
	return fmt.Sprintf("%q", st.name)
}

// fdTarget parses the leading fd argument of fsync/ftruncate style calls and
// returns the root file it refers to ("" + false if none of our business).
func (p *parser) fdTarget(tid int, c *cur, line int, pre *pendingCall, sys string) (name string, cls pclass, ok bool, err error) {
	fd, fpath, deleted, fok := c.fd()
	if !fok {
		return "", 0, false, fmt.Errorf("bad fd")
	}
	cls, base := p.classify(fpath)
	switch cls {
	case pcRootDir:
		return "", cls, !deleted, nil
	case pcRootFile:
		if deleted {
			return "", cls, false, nil
		}
	default:
		return "", cls, false, nil
	}
	name, st, status := p.resolveFD(tid, fd, base, pre)
	switch status {
	case fdMismatch:
		p.unsupported(line, name, fmt.Sprintf("%s on fd %d: annotated path %q disagrees with the tracked fd (%s)", sys, fd, base, st.describe()))
		return "", cls, false, nil
	case fdGoneNow:
		return "", cls, false, nil
	}
	return name, cls, true, nil
}

func (p *parser) doSync(tid int, c *cur, line int, pre *pendingCall) error {
	name, cls, ok, err := p.fdTarget(tid, c, line, pre, "fsync")
	if err != nil || !ok {
		return err
	}
	if cls == pcRootDir {
		p.emit(Event{Line: line, Kind: DirSync})
	} else {
		p.emit(Event{Line: line, Kind: Fsync, Path: name})
	}
	return nil
}

func (p *parser) doFtruncate(tid int, c *cur, line int, pre *pendingCall) error {
	name, cls, ok, err := p.fdTarget(tid, c, line, pre, "ftruncate")
	if err != nil || !ok || cls != pcRootFile {
		return err
	}
	if !c.comma() {
		return fmt.Errorf("missing length")
	}
	size, iok := c.int()
	if !iok {
		return fmt.Errorf("bad length")
	}
	p.emit(Event{Line: line, Kind: Truncate, Path: name, Size: size})
	return nil
}

func (p *parser) doTruncate(c *cur, line int) error {
	cls, base, err := p.pathArg(c, false)
	if err != nil {
		return err
	}
	if cls != pcRootFile {
		return nil
	}
	if !c.comma() {
		return fmt.Errorf("missing length")
	}
	size, ok := c.int()
	if !ok {
		return fmt.Errorf("bad length")
	}
	p.emit(Event{Line: line, Kind: Truncate, Path: base, Size: size})
	return nil
}

// nameGone marks every fd on the root file `name` as referring to a dead object.
func (p *parser) nameGone(name string) {
	for _, st := range p.fds {
		if !st.dir && !st.gone && st.name == name {
			st.gone = true
		}
	}
}

func (p *parser) doRename(c *cur, hasDirfd, hasFlags bool, line int) error {
	co, bo, err := p.pathArg(c, hasDirfd)
	if err != nil {
		return err
	}
	if !c.comma() {
		return fmt.Errorf("missing new path")
	}
	cn, bn, err := p.pathArg(c, hasDirfd)
	if err != nil {
		return err
	}
	var flags []byte
	if hasFlags {
		if !c.comma() {
			return fmt.Errorf("missing flags")
		}
		flags = c.tok()
	}
	switch {
	case co == pcRootFile && cn == pcRootFile:
		if hasFlag(flags, "RENAME_EXCHANGE") || hasFlag(flags, "RENAME_WHITEOUT") {
			p.nameGone(bo)
			p.nameGone(bn)
			p.unsupported(line, bo, fmt.Sprintf("renameat2 to %s with flags %s", bn, flags))
			return nil
		}
		if bo != bn {
			for _, st := range p.fds {
				if st.dir || st.gone {
					continue
				}
				switch st.name {
				case bn:
					st.gone = true
				case bo:
					st.name = bn
				}
			}
		}
		p.emit(Event{Line: line, Kind: Rename, Path: bo, NewPath: bn})
	case co == pcRootFile:
		p.nameGone(bo)
		p.unsupported(line, bo, "rename of a root file to a place outside the modelled files")
	case cn == pcRootFile:
		p.nameGone(bn)
		p.unsupported(line, bn, "rename of something outside the modelled files onto a root file")
	case co == pcRootDir || cn == pcRootDir:
		p.unsupported(line, "", "rename of the root directory")
	}
	return nil
}

func (p *parser) doUnlink(c *cur, hasDirfd bool, line int) error {
	cls, base, err := p.pathArg(c, hasDirfd)
	if err != nil {
		return err
	}
	if cls != pcRootFile {
		return nil
	}
	if hasDirfd {
		if !c.comma() {
			return fmt.Errorf("missing flags")
		}
		if hasFlag(c.tok(), "AT_REMOVEDIR") {
			p.unsupported(line, base, "rmdir of a sub-directory of root")
			return nil
		}
	}
	p.nameGone(base)
	p.emit(Event{Line: line, Kind: Unlink, Path: base})
	return nil
}

func (p *parser) doMkdir(c *cur, hasDirfd bool, line int) error {
	cls, base, err := p.pathArg(c, hasDirfd)
	if err != nil {
		return err
	}
	if cls == pcRootFile {
		p.unsupported(line, base, "mkdir of a sub-directory of root")
	}
	return nil
}

// doCopy handles copy_file_range (destination is argument 2) and sendfile
// (destination is argument 0).
func (p *parser) doCopy(c *cur, dstArg int, ret retInfo, line int, sys string) error {
	for i := 0; i < dstArg; i++ {
		c.tok()
		if !c.comma() {
			return fmt.Errorf("missing argument %d", i+1)
		}
	}
	_, fpath, deleted, ok := c.fd()
	if !ok {
		return fmt.Errorf("bad destination fd")
	}
	cls, base := p.classify(fpath)
	if cls == pcRootFile && !deleted && ret.val > 0 {
		p.unsupported(line, base, fmt.Sprintf("%s of %d bytes into a root file (data not in the trace)", sys, ret.val))
	}
	return nil
}

// ---------------------------------------------------------------------------
// Argument cursor.

type cur struct {
	b []byte
	i int
}

func (c *cur) ws() {
	for c.i < len(c.b) && c.b[c.i] == ' ' {
		c.i++
	}
}

func (c *cur) comma() bool {
	c.ws()
	if c.i < len(c.b) && c.b[c.i] == ',' {
		c.i++
		c.ws()
		return true
	}
	return false
}

var atFdcwd = []byte("AT_FDCWD")

// fdNumber parses only the numeric part of an fd argument (AT_FDCWD = -100).
func (c *cur) fdNumber() (int, bool) {
	c.ws()
	if bytes.HasPrefix(c.b[c.i:], atFdcwd) {
		c.i += len(atFdcwd)
		return -100, true
	}
	start := c.i
	fd := 0
	for c.i < len(c.b) && c.b[c.i] >= '0' && c.b[c.i] <= '9' {
		fd = fd*10 + int(c.b[c.i]-'0')
		c.i++
	}
	return fd, c.i > start
}

// fd parses `N`, `N<path>`, `N<path>(deleted)`, `AT_FDCWD`, `AT_FDCWD<path>`.
// The path is unescaped; a trailing " (deleted)" inside the brackets (older
// strace versions) is recognised as well.
func (c *cur) fd() (fd int, fpath string, deleted bool, ok bool) {
	fd, ok = c.fdNumber()
	if !ok {
		return
	}
	if c.i < len(c.b) && c.b[c.i] == '<' {
		k := bytes.IndexByte(c.b[c.i:], '>')
		if k < 0 {
			return fd, "", false, false
		}
		pb, err := Unescape(nil, c.b[c.i+1:c.i+k])
		if err != nil {
			return fd, "", false, false
		}
		c.i += k + 1
		fpath = string(pb)
		if bytes.HasPrefix(c.b[c.i:], []byte("(deleted)")) {
			c.i += len("(deleted)")
			deleted = true
		} else if strings.HasSuffix(fpath, " (deleted)") {
			fpath = strings.TrimSuffix(fpath, " (deleted)")
			deleted = true
		}
	}
	return fd, fpath, deleted, true
}

// str parses a string literal and returns its still-escaped contents.
// abbrev reports a trailing "..."; null reports the literal NULL.
func (c *cur) str() (raw []byte, abbrev, null, ok bool) {
	c.ws()
	if bytes.HasPrefix(c.b[c.i:], []byte("NULL")) {
		c.i += 4
		return nil, false, true, true
	}
	if c.i >= len(c.b) || c.b[c.i] != '"' {
		return nil, false, false, false
	}
	start := c.i + 1
	j := start
	for {
		k := bytes.IndexByte(c.b[j:], '"')
		if k < 0 {
			return nil, false, false, false
		}
		q := j + k
		bs := 0
		for q-1-bs >= start && c.b[q-1-bs] == '\\' {
			bs++
		}
		if bs%2 == 0 {
			raw = c.b[start:q]
			c.i = q + 1
			break
		}
		j = q + 1
	}
	if bytes.HasPrefix(c.b[c.i:], []byte("...")) {
		c.i += 3
		abbrev = true
	}
	return raw, abbrev, false, true
}

// tok returns the text up to the next top-level comma (or the end).
func (c *cur) tok() []byte {
	c.ws()
	start := c.i
	depth := 0
	for c.i < len(c.b) {
		switch ch := c.b[c.i]; ch {
		case '"':
			if _, _, _, ok := c.str(); !ok {
				c.i = len(c.b)
			}
			continue
		case '<':
			// fd annotation `N<path>` / `AT_FDCWD<path>`: skip to the '>'.
			if c.i > start && (c.b[c.i-1] >= '0' && c.b[c.i-1] <= '9' || c.b[c.i-1] == 'D') {
				if k := bytes.IndexByte(c.b[c.i:], '>'); k >= 0 {
					c.i += k
				}
			}
		case '(', '[', '{':
			depth++
		case ')', ']', '}':
			depth--
		case ',':
			if depth <= 0 {
				return bytes.TrimRight(c.b[start:c.i], " ")
			}
		}
		c.i++
	}
	return bytes.TrimRight(c.b[start:c.i], " ")
}

func (c *cur) int() (int64, bool) {
	t := c.tok()
	// strace may append a comment: `1234 /* ... */`.
	if k := bytes.IndexByte(t, ' '); k >= 0 {
		t = t[:k]
	}
	v, err := strconv.ParseInt(string(t), 0, 64)
	return v, err == nil
}
