package fstrace

import (
	"bytes"
	"fmt"
	"os"
	"strings"
	"time"
)

// CheckReport is the result of SelfCheck.
type CheckReport struct {
	Trace      *Trace
	FS         *FS // the model after replaying all events
	TraceBytes int64
	ParseTime  time.Duration
	ReplayTime time.Duration
}

// MBPerSec is the parse throughput in 10^6 bytes per second.
func (r *CheckReport) MBPerSec() float64 {
	if r.ParseTime <= 0 {
		return 0
	}
	return float64(r.TraceBytes) / 1e6 / r.ParseTime.Seconds()
}

func (r *CheckReport) String() string {
	var b strings.Builder
	fmt.Fprintf(&b, "trace: %d bytes, %d lines, parsed in %v (%.0f MB/s), replayed in %v\n",
		r.TraceBytes, r.Trace.Lines, r.ParseTime.Round(time.Microsecond), r.MBPerSec(), r.ReplayTime.Round(time.Microsecond))
	fmt.Fprintf(&b, "events: %d, failed calls: %d, skipped lines: %d, unfinished calls: %d\n",
		len(r.Trace.Events), r.Trace.FailedCalls, r.Trace.SkippedLines, r.Trace.UnfinishedCalls)
	counts := r.Trace.CountByKind()
	for k := Kind(0); k < numKinds; k++ {
		fmt.Fprintf(&b, "  %-12s %d\n", k, counts[k])
	}
	if r.FS != nil {
		total := 0
		for _, f := range r.FS.Files {
			total += len(f.Data)
		}
		fmt.Fprintf(&b, "model: %d files, %d bytes\n", len(r.FS.Files), total)
	}
	return b.String()
}

// SelfCheck parses traceFile, replays ALL events into an empty FS and checks
// that the result equals the real directory root and that the concatenation
// of the Marker events equals the content of the marker file. root must have
// been empty (or absent) when the traced program started. A non-nil error
// describes the first problem; the report is returned whenever parsing got
// far enough to produce one.
func SelfCheck(traceFile, root, marker string) (*CheckReport, error) {
	rep := &CheckReport{}
	if st, err := os.Stat(traceFile); err == nil {
		rep.TraceBytes = st.Size()
	}
	t0 := time.Now()
	tr, err := Parse(traceFile, root, marker)
	rep.ParseTime = time.Since(t0)
	if tr != nil {
		rep.Trace = tr
	}
	if err != nil {
		if tr == nil {
			return nil, err
		}
		return rep, err
	}
	if tr.SkippedLines != 0 {
		return rep, fmt.Errorf("%d skipped lines; first: %s", tr.SkippedLines, first(tr.Errors))
	}
	if len(tr.Errors) != 0 {
		return rep, fmt.Errorf("%d parse problems; first: %s", len(tr.Errors), tr.Errors[0])
	}
	t0 = time.Now()
	fs := NewFS()
	var markers []byte
	for i, e := range tr.Events {
		if e.Seq != i {
			return rep, fmt.Errorf("event %d has Seq %d", i, e.Seq)
		}
		switch e.Kind {
		case Unsupported:
			return rep, fmt.Errorf("unsupported event %d at line %d: %s", e.Seq, e.Line, e)
		case Marker:
			markers = append(markers, e.Data...)
		}
		if err := fs.Apply(e); err != nil {
			return rep, fmt.Errorf("replay (trace line %d): %v", e.Line, err)
		}
	}
	rep.ReplayTime = time.Since(t0)
	rep.FS = fs
	ok, diff, err := fs.Equal(root)
	if err != nil {
		return rep, err
	}
	if !ok {
		return rep, fmt.Errorf("replayed file system differs from %s: %s", root, diff)
	}
	want, err := os.ReadFile(marker)
	if err != nil {
		return rep, err
	}
	if !bytes.Equal(want, markers) {
		k := 0
		for k < len(want) && k < len(markers) && want[k] == markers[k] {
			k++
		}
		return rep, fmt.Errorf("marker events (%d bytes) differ from marker file (%d bytes) at offset %d", len(markers), len(want), k)
	}
	return rep, nil
}

func first(s []string) string {
	if len(s) == 0 {
		return "(none recorded)"
	}
	return s[0]
}
