#!/usr/bin/env bash
# tools/altcheck.sh <klevdb-tree> <Cxx> [check args...]
# Development aid: runs one check against ANOTHER checkout of klevdb (a scratch worktree with a candidate
# change applied) from a throw-away copy of the harness, so /repo and /verif/evidence stay untouched
# (e.g. while a long sweep is using /repo). The registered commands never use this.
set -u
tree=$(cd "$1" && pwd); shift
V=$(cd "$(dirname "$0")/.." && pwd)
tmp=$(mktemp -d /tmp/altcheck.XXXXXX)
trap 'rm -rf "$tmp"' EXIT
cp -r "$V/check" "$V/harness" "$V/known_findings.json" "$tmp/"
sed -i "s#=> /repo#=> $tree#" "$tmp/harness/go.mod"
"$tmp/check" "$@"; code=$?
if [ -n "${ALT_SHOW:-}" ]; then python3 -c "import json,sys; e=json.load(open('$tmp/evidence/$1.json'))['coverage']; print(json.dumps({k:e[k] for k in sys.argv[1].split(',') if k in e}))" "$ALT_SHOW"; fi
exit $code
