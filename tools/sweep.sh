#!/usr/bin/env bash
# tools/sweep.sh <tier> <seed>...   : runs every check at the given seeds, prints one line per run
cd "$(dirname "$0")/.."
tier=$1; shift
for seed in "$@"; do
  for p in C01 C02 C03 C04 C05 C06 C07 C09 C10 C11 C12 C13 C14 C15 C16 C17 C19 C20 C18 C08; do
    out=$(VERIF_SEED=$seed ./check $p --tier $tier 2>&1); code=$?
    echo "seed=$seed $p exit=$code $(echo "$out" | tail -1 | cut -c1-150)"
    if [ $code -ne 0 ]; then echo "$out" | grep -A2 "VIOLATION\|INCONCLUSIVE" | head -12 | cut -c1-400; fi
  done
done
