#!/usr/bin/env python3
"""tools/seedauto.py <round> <Cxx>...  : confirms the two changes of a sub-agent for each property
(demo placement and -run pattern are taken from the agent's README) and runs the property's own check;
when that is silent the sibling checks are tried. Wraps tools/seedverify.py."""
import os, re, sys, glob, json, shutil, subprocess
V = os.path.dirname(os.path.dirname(os.path.abspath(__file__)))
SIB = {"C01": ["C12", "C02"], "C02": ["C01", "C13"], "C03": ["C08", "C04"], "C04": ["C03", "C08"], "C05": ["C06", "C07"], "C06": ["C05"], "C07": ["C05", "C13"],
       "C08": ["C18", "C19"], "C09": ["C11", "C08"], "C10": ["C11", "C13"], "C11": ["C13", "C20", "C05"], "C12": ["C01", "C08", "C05"], "C13": ["C11", "C08"], "C14": ["C08"],
       "C15": ["C13", "C12", "C10"], "C16": ["C12", "C01", "C05"], "C17": ["C13", "C10", "C05"], "C18": ["C08", "C02"], "C19": ["C08", "C11"], "C20": ["C11", "C19"]}
rnd = int(sys.argv[1])
for pid in sys.argv[2:]:
    base = "/tmp/seed%d-%s" % (rnd, pid)
    extra = "/tmp/seed%d-extra/%s" % (rnd, pid)
    for e in os.listdir(base):
        if e not in ("a", "b"):
            os.makedirs(extra, exist_ok=True)
            shutil.move(os.path.join(base, e), os.path.join(extra, e))
    for var in ("a", "b"):
        d = os.path.join(base, var)
        if not os.path.isdir(d):
            print(pid, var, "MISSING"); continue
        readme = open(os.path.join(d, "README.md")).read() if os.path.exists(os.path.join(d, "README.md")) else ""
        demos = [f for f in os.listdir(d) if f.endswith(".go")]
        # the main demo: the one without a verif build tag if there is one
        tagged = [f for f in demos if "go:build verif" in open(os.path.join(d, f)).read()[:300]]
        plain = [f for f in demos if f not in tagged]
        tags = ""
        use = plain
        if not plain:
            use, tags = tagged, "verif"
        for f in demos:
            if f not in use:
                os.makedirs(extra, exist_ok=True)
                shutil.move(os.path.join(d, f), os.path.join(extra, var + "_" + f))
        # test function names from the demo files
        names = []
        pkgdecl = "klevdb"
        for f in use:
            src = open(os.path.join(d, f)).read()
            names += re.findall(r"^func (Test\w+)\(", src, re.M)
            m = re.search(r"^package (\w+)", src, re.M)
            if m: pkgdecl = m.group(1)
        dest = "."
        base_pkg = pkgdecl.replace("_test", "")
        if base_pkg in ("segment", "index", "message", "notify", "kdir"):
            dest = "pkg/" + base_pkg
        run = "^(" + "|".join(n for n in names if "Child" not in n or True) + ")$"
        needs = ""
        m = re.search(r"(?im)^[#*\s-]*(?:what it needs|needs|needed to manifest|trigger)[^\n]*\n((?:.+\n){1,6})", readme)
        if m: needs = " ".join(m.group(1).split())[:300]
        cmd = ["python3", os.path.join(V, "tools/seedverify.py"), "--round", str(rnd), "--id", pid, "--var", var, "--dest", dest, "--run", run, "--checks", pid]
        if tags: cmd += ["--tags", tags]
        if needs: cmd += ["--needs", needs]
        r = subprocess.run(cmd, capture_output=True, text=True, cwd=V)
        last = (r.stdout.strip().splitlines() or [r.stderr[-300:]])[-1]
        try:
            res = json.loads(last)
        except Exception:
            print(pid, var, "ERROR", last[:300]); continue
        if not res.get("caught_by"):
            cmd2 = ["python3", os.path.join(V, "tools/seedverify.py"), "--round", str(rnd), "--skip-demo", "--id", pid, "--var", var, "--checks", ",".join(SIB.get(pid, []))]
            r2 = subprocess.run(cmd2, capture_output=True, text=True, cwd=V)
            try:
                res2 = json.loads(r2.stdout.strip().splitlines()[-1]); res["caught_by"] = res2.get("caught_by", [])
            except Exception:
                pass
        print(pid, var, json.dumps({k: res.get(k) for k in ("suite_passes_with_patch", "demo_fails_with_patch", "demo_passes_without_patch", "caught_by")}), flush=True)
