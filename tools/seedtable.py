#!/usr/bin/env python3
"""Regenerates seeded/TABLE.md and the tables of DESIGN.md section 12 (between the SEED-TABLE markers)."""
import json, glob, os, re
V = os.path.dirname(os.path.dirname(os.path.abspath(__file__)))
rows = {r: [] for r in range(1, 9)}
stats = {r: [0, 0, 0] for r in range(1, 9)}  # confirmed, caught, missed-first
for d in sorted(glob.glob(V + '/seeded/C*-[a-z]')):
    m = json.load(open(d + '/meta.json'))
    name = os.path.basename(d)
    rnd = m.get('round', 1)
    ok = m.get('suite_passes_with_patch') and m.get('demo_fails_with_patch') and m.get('demo_passes_without_patch')
    desc = ""
    rp = d + '/README.md'
    if os.path.exists(rp):
        for l in open(rp):
            if l.startswith('#'):
                desc = re.sub(r'^(Seed(ed change)?|Demo)?\s*[\w/ -]*?[—:-]\s*', '', l.strip('# \n'), count=1) or l.strip('# \n')
                break
        if not desc:  # round 8 READMEs have no heading: first line, without the "Changed:" label
            first = [l for l in open(rp) if l.strip()]
            desc = re.sub(r'^[-* ]*\**Changed:?\**:?\s*', '', first[0].strip()) if first else ""
    need = m.get('needs_to_manifest', '')
    sig = ""
    for c in m.get('caught_by', []):
        s = m['checks'][c]['signatures']
        if s:
            sig = s[0].replace('signature: ', '').split(' (x')[0]
            break
    star = " (*)" if m.get('initially_missed') else ""
    if m.get('obsolete'):
        star += " (obsolete on the current tree, see meta.json)"
    caught = ", ".join(m.get('caught_by', [])) or "**not caught**"
    rows[rnd].append("| %s%s | %s | %s. Needs: %s | %s | `%s` |" % (name, star, m['property'], desc[:130], need, caught, sig[:100]))
    stats[rnd][0] += 1 if ok else 0
    stats[rnd][1] += 1 if m.get('caught_by') else 0
    stats[rnd][2] += 1 if m.get('initially_missed') else 0
hdr = "| seed | breaks | what the change is / what it needs to manifest | caught by (quick tier) | first signature |\n|---|---|---|---|---|\n"
own = json.load(open(V + '/seeded/own/results.json'))
ol = ["| id | regression | expected | result |", "|---|---|---|---|"]
for k in sorted(own):
    r = own[k]
    res = []
    for c, v in r['checks'].items():
        res.append("%s: %s" % (c, "fires (`%s`)" % v['signatures'][0].replace('signature: ', '').split(' (x')[0][:70] if v['exit'] == 1 else "silent"))
    ol.append("| %s | %s | %s | %s |" % (k, r['description'], ",".join(r['expected']), "; ".join(res)))
t1 = hdr + "\n".join(rows[1])
t2 = hdr + "\n".join(rows[2])
t3 = "\n".join(ol)
t2b = hdr + "\n".join(rows[3])
t2c = hdr + "\n".join(rows[4])
t2d = hdr + "\n".join(rows[5])
t2e = hdr + "\n".join(rows[6])
t2f = hdr + "\n".join(rows[7])
t2g = hdr + "\n".join(rows[8])
open(V + '/seeded/TABLE.md', 'w').write("## round 1\n\n%s\n\n## round 2\n\n%s\n\n## round 3\n\n%s\n\n## round 4\n\n%s\n\n## round 5\n\n%s\n\n## round 6\n\n%s\n\n## round 7\n\n%s\n\n## round 8\n\n%s\n\n## own sensitivity runs\n\n%s\n" % (t1, t2, t2b, t2c, t2d, t2e, t2f, t2g, t3))
p = V + '/DESIGN.md'
s = open(p).read()
for tag, t in (("R1", t1), ("R2", t2), ("R3", t2b), ("R4", t2c), ("R5", t2d), ("R6", t2e), ("R7", t2f), ("R8", t2g), ("OWN", t3)):
    b, e = "<!-- SEED-TABLE-%s-BEGIN -->" % tag, "<!-- SEED-TABLE-%s-END -->" % tag
    if b in s:
        s = s[:s.index(b) + len(b)] + "\n" + t + "\n" + s[s.index(e):]
open(p, 'w').write(s)
for r in range(1, 9):
    print("round%d: %d confirmed, %d caught, %d missed at first" % tuple([r] + stats[r]))
