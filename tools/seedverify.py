#!/usr/bin/env python3
"""Confirm a seeded change produced by a sub-agent and run our checks against it.

  tools/seedverify.py --id C06 --var a --dest . --run '^TestSeedC06A$' --checks C06[,C05] [--pkg .] [--prog demo/main.go]

Steps (all in the scratch worktree /tmp/wt-<id>, then /repo for the checks):
  1. worktree clean; apply patch; build; repository suite must pass          -> suite_passes_with_patch
  2. demo copied to --dest, run with the patch: must FAIL                      -> demo_fails_with_patch
  3. patch removed, demo run again: must PASS                                  -> demo_passes_without_patch
  4. patch applied to /repo's working tree, quick checks run, /repo restored   -> checks{...}
  5. everything stored under /verif/seeded/<id>-<var>/ (patch.diff, demo, README.md, meta.json)
"""
import argparse, json, os, shutil, subprocess, sys, time, glob

V = os.path.dirname(os.path.dirname(os.path.abspath(__file__)))
ENV = dict(os.environ, GOFLAGS="-mod=mod", GOPROXY="off", GOSUMDB="off", GOTOOLCHAIN="local")

def sh(cmd, cwd=None, timeout=3000):
    return subprocess.run(cmd, shell=True, cwd=cwd, env=ENV, capture_output=True, text=True, timeout=timeout)

ap = argparse.ArgumentParser()
ap.add_argument("--id", required=True)
ap.add_argument("--var", required=True)
ap.add_argument("--dest", default=".")          # where the demo test file goes, relative to the repo root
ap.add_argument("--run", default="")            # -run regex for go test
ap.add_argument("--pkg", default="")            # package to test (default: --dest)
ap.add_argument("--prog", default="")           # demo is a program: path relative to seed dir of main.go (run with go run)
ap.add_argument("--checks", required=True)
ap.add_argument("--tags", default="")
ap.add_argument("--needs", default="")
ap.add_argument("--tier", default="quick")
ap.add_argument("--skip-demo", action="store_true")
ap.add_argument("--round", type=int, default=1)
ap.add_argument("--alt", action="store_true")   # run the checks against the scratch worktree (tools/altcheck.sh) instead of /repo
a = ap.parse_args()

if a.round == 1:
    wt = "/tmp/wt-" + a.id
    seed = "/tmp/seed-%s/%s" % (a.id, a.var)
    outvar = a.var
else:
    wt = "/tmp/wt%d-%s" % (a.round, a.id)
    seed = "/tmp/seed%d-%s/%s" % (a.round, a.id, a.var)
    outvar = chr(ord(a.var) + 2 * (a.round - 1))  # round 2: a->c, b->d
patch = os.path.join(seed, "patch.diff")
out = os.path.join(V, "seeded", "%s-%s" % (a.id, outvar))
os.makedirs(out, exist_ok=True)
meta = {"property": a.id, "variant": outvar, "round": a.round, "checks": {}, "ran": []}

def clean_wt():
    sh("git checkout -- . && git clean -fdq", wt)

clean_wt()
assert sh("git status --porcelain", wt).stdout.strip() == ""
demo_files = [f for f in glob.glob(os.path.join(seed, "**", "*"), recursive=True) if os.path.isfile(f) and not f.endswith(("patch.diff", "README.md"))]

def place_demo():
    placed = []
    for f in demo_files:
        rel = os.path.relpath(f, seed)
        if a.prog:
            d = os.path.join(wt, "seed_demo_" + a.id.lower() + a.var, rel)
        else:
            name = os.path.basename(f)
            if name.endswith("_test.go"):
                name = "seed_%s%s_%s" % (a.id.lower(), a.var, name)
            d = os.path.join(wt, a.dest, name)
        os.makedirs(os.path.dirname(d), exist_ok=True)
        shutil.copy(f, d)
        placed.append(d)
    return placed

def run_demo():
    tags = ("-tags " + a.tags) if a.tags else ""
    if a.prog:
        cmd = "go1.26.8 run %s ./seed_demo_%s%s/%s" % (tags, a.id.lower(), a.var, os.path.dirname(a.prog) or ".")
    else:
        pkg = a.pkg or ("./" + a.dest if a.dest != "." else ".")
        cmd = "go1.26.8 test %s -count=1 -run '%s' %s" % (tags, a.run, pkg)
    meta["demo_cmd"] = cmd
    r = sh(cmd, wt, timeout=1200)
    return r.returncode, (r.stdout + r.stderr)[-1500:]

if not a.skip_demo:
    # 1. with patch
    r = sh("git apply " + patch, wt)
    assert r.returncode == 0, "patch does not apply: " + r.stderr
    b = sh("go1.26.8 build ./...", wt)
    meta["builds"] = b.returncode == 0
    t = sh("go1.26.8 test -count=1 ./...", wt)
    tries = 1
    while t.returncode != 0 and "TestConcurrent/Delete" in (t.stdout + t.stderr) and (t.stdout + t.stderr).count("--- FAIL: Test") == 1 and tries < 4:
        # the known flake of TestConcurrent/Delete* (the test expects every head delete to delete, Delete
        # is documented as not guaranteeing it; 5-25 % of runs on the unchanged code under load)
        meta["suite_note"] = "TestConcurrent/Delete* flaked %d time(s) (known flake of the unchanged suite under load), rerun" % tries
        t = sh("go1.26.8 test -count=1 ./...", wt)
        tries += 1
    meta["suite_passes_with_patch"] = t.returncode == 0
    if t.returncode != 0:
        meta["suite_output"] = (t.stdout + t.stderr)[-800:]
    meta["ran"].append("go1.26.8 test -count=1 ./...   (with patch, in scratch worktree)")
    place_demo()
    code, outp = run_demo()
    meta["demo_fails_with_patch"] = code != 0
    meta["demo_output_with_patch"] = outp[-700:]
    # 3. without patch
    clean_wt()
    place_demo()
    code, outp = run_demo()
    meta["demo_passes_without_patch"] = code == 0
    if code != 0:
        meta["demo_output_without_patch"] = outp[-700:]
    meta["ran"].append(meta.get("demo_cmd", "") + "   (with and without patch)")
    clean_wt()

# 4. our checks against /repo with the patch (or, with --alt, against the scratch worktree)
target = wt if a.alt else "/repo"
assert sh("git status --porcelain", target).stdout.strip() == "", target + " not clean"
r = sh("git apply " + patch, target)
assert r.returncode == 0, "patch does not apply to %s: %s" % (target, r.stderr)
try:
    for c in a.checks.split(","):
        t0 = time.time()
        if a.alt:
            res = sh("tools/altcheck.sh %s %s --tier %s" % (wt, c, a.tier), V, timeout=7200)
        else:
            res = sh("./check %s --tier %s" % (c, a.tier), V, timeout=7200)
        sigs = [l.strip() for l in res.stdout.splitlines() if l.strip().startswith("signature:")]
        whats = [l.strip() for l in res.stdout.splitlines() if l.strip().startswith("what:")]
        meta["checks"][c] = {"tier": a.tier, "exit": res.returncode, "violations": sum(1 for l in res.stdout.splitlines() if l.startswith("VIOLATION")),
                             "signatures": sigs[:5], "first_what": whats[:1], "wall_s": round(time.time() - t0, 1)}
        if a.alt:
            meta["checks"][c]["ran_against"] = "scratch worktree with the patch applied (tools/altcheck.sh), /repo was in use by a sweep"
            meta["ran"].append("tools/altcheck.sh <worktree> %s --tier %s   (patch applied to the scratch worktree)" % (c, a.tier))
        else:
            meta["ran"].append("./check %s --tier %s   (patch applied to /repo, then git checkout -- .)" % (c, a.tier))
        print(a.id, a.var, c, "exit", res.returncode, sigs[:2])
finally:
    sh("git checkout -- .", target)
assert sh("git status --porcelain", target).stdout.strip() == ""
meta["caught_by"] = [c for c, v in meta["checks"].items() if v["exit"] == 1]
if a.needs:
    meta["needs_to_manifest"] = a.needs
shutil.copy(patch, os.path.join(out, "patch.diff"))
for f in demo_files:
    shutil.copy(f, os.path.join(out, os.path.basename(f)))
if os.path.exists(os.path.join(seed, "README.md")):
    shutil.copy(os.path.join(seed, "README.md"), os.path.join(out, "README.md"))
old = {}
mp = os.path.join(out, "meta.json")
if os.path.exists(mp):
    old = json.load(open(mp))
    for k, v in old.items():
        if k not in meta or (k == "checks"):
            if k == "checks":
                v.update(meta["checks"]); meta["checks"] = v
            else:
                meta[k] = v
    meta["caught_by"] = [c for c, v in meta["checks"].items() if v["exit"] == 1]
    ran = []
    for line in old.get("ran", []) + meta["ran"]:
        if line not in ran:
            ran.append(line)
    meta["ran"] = ran
json.dump(meta, open(mp, "w"), indent=1)
print(json.dumps({k: meta[k] for k in meta if k.startswith(("suite", "demo_f", "demo_p", "caught"))}))
