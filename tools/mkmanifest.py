#!/usr/bin/env python3
"""Generates /verif/MANIFEST.json from the table below (kept in one place so it stays valid)."""
import json, subprocess, os, sys
V = os.path.dirname(os.path.dirname(os.path.abspath(__file__)))

hook_commit = subprocess.run(["git", "-C", "/repo", "log", "--format=%H", "--grep=^verif hooks", "-n", "5"],
                             capture_output=True, text=True).stdout.split()

H = "histmon"
checks = {
 # id: (engine, level, technique, text, note, design_ref)
 "C01": (H, "exploration", "sequential reference-model monitor over seeded random API histories (scan vs model after every step)",
         "Held on the executed histories only: every quiescent scan equalled the model in all generated publish/delete/trim/compact/GC/reopen sequences.",
         "Trusted: harness/ref model, klevdb's own Consume as the reading path.", "5/C01"),
 "C02": (H, "exploration", "reference-model monitor of Publish/NextOffset/Sync return values over seeded histories",
         "Offsets returned/written back and NextOffset after every step agree with the model in all generated histories (biased to tail/all deletes + reopen).",
         "Trusted: harness/ref model.", "5/C02"),
 "C03": (H, "exploration", "grid oracle: every (offset, maxCount) cell of Consume + feed-back iteration against the model, on every reached state",
         "Every grid cell in every reached state satisfied the acceptance predicate of the statement.", "Trusted: harness/ref model.", "5/C03"),
 "C04": (H, "exploration", "grid oracle: Get of every offset incl. relative ones vs the model with errors.Is classification, on every reached state",
         "Every Get cell in every reached state matched the taxonomy.", "Trusted: harness/ref model.", "5/C04"),
 "C09": (H, "exploration", "reference-model monitor of key lookups with real FNV-1a collision keys + typed key-flag monitor (typed wrapper with a codec that distinguishes an empty key from no key)",
         "GetByKey/OffsetByKey/ConsumeByKey agreed with the model for all pool/absent/colliding keys in every reached state.", "Trusted: harness/ref model; collision pairs re-verified each run.", "5/C09"),
 "C10": (H, "exploration", "reference-model monitor of time lookups, 1 µs sweep, plateau/straddle-biased histories",
         "GetByTime/OffsetByTime agreed with the model at every swept microsecond in every reached non-decreasing state.", "Trusted: harness/ref model.", "5/C10"),
 "C11": (H, "exploration", "reference-codec disk audit at every Close + differential observation with index-file subsets removed",
         "Index files equalled the derived index and answers were identical with/without index files on all closed states reached.", "Trusted: harness/ref codec.", "5/C11"),
 "C12": (H, "exploration", "reference-model monitor of Delete/DeleteMulti results (reported set, content, size) and post-scan",
         "Every delete call in the generated histories reported exactly what it removed.", "Trusted: harness/ref model and codec sizes.", "5/C12"),
 "C15": (H, "exploration", "reference-model monitor of Find*/Trim* helpers",
         "Every helper call selected the model's prefix and the bound held afterwards.", "Trusted: harness/ref model.", "5/C15"),
 "C16": (H, "exploration", "reference-model monitor of compaction helpers (latest-value map invariance, removed-set predicates)",
         "Latest value per key unchanged and removed sets within the stated predicates on all calls made.", "Trusted: harness/ref model.", "5/C16"),
 "C17": (H, "exploration", "reference-model monitor + version-byte audit + differential observation against single-version migrations",
         "Messages/NextOffset preserved, versions as requested, mixed == single-version behaviour on all states reached.", "Trusted: harness/ref codec (header sniffing).", "5/C17"),
 "C20": (H, "exploration", "differential observation of backup vs source on reached states + Backup held at pause points (pkg/vhook) between two copies while Deletes are issued: the backup must equal one state of the source",
         "Every backup taken passed Check and answered like its source; every backup held between two copies while Deletes were issued equalled the source at one instant of the call.", "Trusted: harness observation code; goroutine wait states for 'the deletes are blocked'.", "5/C20"),
}
pending = {
 "C05": "crashmon engine under construction in this commit; will be claimed when it runs",
 "C06": "crashmon engine under construction in this commit; will be claimed when it runs",
 "C07": "dmgmon engine under construction in this commit; will be claimed when it runs",
 "C08": "concmon engine under construction in this commit; will be claimed when it runs",
 "C13": "fmtmon engine under construction in this commit; will be claimed when it runs",
 "C14": "dmgmon engine under construction in this commit; will be claimed when it runs",
 "C18": "concmon engine under construction in this commit; will be claimed when it runs",
 "C19": "lock-automaton engine under construction in this commit; will be claimed when it runs",
}
if os.path.exists(os.path.join(V, "tools", "manifest_extra.py")):
    sys.path.insert(0, os.path.join(V, "tools"))
    import manifest_extra
    manifest_extra.update(checks, pending)

m = {
 "version": 1,
 "setup_cmd": "cd /verif/harness && export GOFLAGS=-mod=mod GOPROXY=off GOSUMDB=off GOTOOLCHAIN=local && go1.26.8 build -tags verif -o /verif/.bin/vmon ./cmd/vmon && go1.26.8 build -tags verif -race -o /verif/.bin/vmon-race ./cmd/vmon",
 "hooks": {
  "guard": "verif (Go build tag)",
  "enable": "go build -tags verif (pkg/vhook.At(name) calls become calls to a handler installed by the harness; without the tag they are empty functions)",
  "baseline_off_cmd": "cd /repo && go test -mod=mod -json -vet=off -count=1 -timeout 25m ./...",
  "source_commits": hook_commit,
  "add_only": True,
 },
 "engines": [
  {"name": e, "path": pth, "serves_properties": sorted(k for k, v in checks.items() if v[0] == e), "kind_free_text": txt}
  for e, pth, txt in [
   ("histmon", "harness/cmd/vmon/histmon.go", "sequential reference-model monitor: seeded random API histories against real klevdb; oracle = harness/ref model + reference codec; observations through the public API and the files at quiescent points"),
   ("fmtmon", "harness/cmd/vmon/fmtmon.go", "codec differential monitor (klevdb writers/readers/mmap/Open vs the independent reference codec), followed by histmon's Stat/Size/disk-audit clauses"),
   ("lockmon", "harness/cmd/vmon/lockmon.go", "exhaustive open/close/publish sequences against a lock-state automaton, cross-process holder, read-only vs read-write differential sessions"),
   ("dmgmon", "harness/cmd/vmon/dmgmon.go", "damage-injection monitor: enumerated damages of segment files, real Recover/Check/read calls judged against the reference parser"),
   ("crashmon", "harness/cmd/vmon/crashmon.go", "syscall-trace monitor: workloads recorded under strace, every crash point / torn append / tail-loss image rebuilt by harness/fstrace and recovered by the real code"),
   ("concmon", "harness/cmd/vmon/conc_c08.go", "concurrency monitor under the Go race detector: pause-window scenarios through pkg/vhook, perturbed free-running histories, stress children; stream monitors + porcupine linearizability + goroutine wait states"),
  ]
 ],
 "checks": [],
 "not_applicable": [{"property_id": k, "reason": v} for k, v in sorted(pending.items()) if k not in checks],
 "notes": "Every check: ./check <id> [--tier quick|thorough]; rebuilds harness/cmd/vmon against /repo's working tree with -tags verif (C08/C18 additionally -race). VERIF_SEED selects the PRNG seed. Known findings: known_findings.json.",
}
for k in sorted(checks):
    eng, level, tech, text, note, ref = checks[k]
    m["checks"].append({
        "property_id": k,
        "quick_cmd": f"./check {k} --tier quick",
        "thorough_cmd": f"./check {k} --tier thorough",
        "evidence_file": f"/verif/evidence/{k}.json",
        "replay_cmd_template": f"./check {k} --replay {{path}}",
        "engine": eng,
        "level_claimed": {"category": level, "text": text, "design_ref": "DESIGN.md §" + ref},
        "level_note": note,
        "technique": tech,
    })
json.dump(m, open(os.path.join(V, "MANIFEST.json"), "w"), indent=1)
print("wrote MANIFEST.json with", len(m["checks"]), "checks,", len(m["not_applicable"]), "not applicable")
