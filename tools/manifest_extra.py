def update(checks, pending):
    checks["C13"] = ("fmtmon", "exploration", "differential codec monitor (klevdb writer/readers/mmap/Open vs an independent reference codec) + Stat/Size/growth audit on histmon states",
        "Bytes, positions, sizes and Stat agreed with the documented layout on every generated message shape and every reached state.",
        "Trusted: the layout transcription in harness/ref/codec.go (written from the documentation, not from klevdb's code).", "5/C13")
    checks["C19"] = ("lockmon", "exploration", "exhaustive fixed-length open/close/publish sequences against a lock-state automaton (in-process and cross-process) + read-only vs read-write differential sessions (also through the typed wrapper, on an empty directory, with GC before the queries, several read-only handles querying at the same time, Close against a query held at a pause point, blocking constructors that fail)",
        "Every enumerated sequence obeyed the lock automaton; read-only handles answered like read-write ones and changed no log file.",
        "Trusted: kernel flock semantics.", "5/C19")
    for k in ("C13", "C19"):
        pending.pop(k, None)

_prev = update
def update(checks, pending):
    _prev(checks, pending)
    checks["C07"] = ("dmgmon", "fault_enumeration", "enumerated damage injection on head segments; Recover/Check results compared with an independent reference parser of the damaged bytes",
        "For every enumerated damage of every generated segment Recover kept exactly the reference parser's valid prefix and Check agreed with the reference verdict.",
        "Trusted: harness/ref codec; file header intact or file empty.", "5/C07")
    checks["C14"] = ("dmgmon", "fault_enumeration", "enumerated in-place damage of multi-segment logs; every read API judged against the clean baseline with the reference parser mapping damage to records",
        "For every enumerated damage no call returned a wrong field, panicked or exceeded the allocation bound; calls touching a damaged record failed; unrelated calls were unchanged.",
        "Trusted: harness/ref codec; index files intact; CRC-32C collisions ignored.", "5/C14")
    for k in ("C07", "C14"):
        pending.pop(k, None)

_prev2 = update
def update(checks, pending):
    _prev2(checks, pending)
    checks["C05"] = ("crashmon", "fault_enumeration", "strace-recorded syscall traces replayed to every crash point (plus torn appends and depth-2 crash points inside recovery); real Open(Recover) judged against the marker-derived allowed set",
        "Every enumerated crash image of every recorded workload recovered to an allowed log with agreeing views, monotone NextOffset, idempotent recovery and appendability (except the listed known finding).",
        "Trusted: strace's record of syscalls (self-checked by replay == real directory), harness/fstrace replayer, crash model of the property.", "5/C05")
    checks["C06"] = ("crashmon", "fault_enumeration", "strace-recorded fsync/write trace (single-goroutine, multi-process, torn-then-recovered and concurrent publisher/syncer workloads); synthesized tail-loss images (per-file cut between last fsynced and current length) recovered by the real code and judged against the Sync watermark",
        "Every synthesized power-loss image recovered to a prefix of the acknowledged log containing everything below the watermark.",
        "Trusted: strace's record of fsync calls, the property's durability model.", "5/C06")
    for k in ("C05", "C06"):
        pending.pop(k, None)

_prev3 = update
def update(checks, pending):
    _prev3(checks, pending)
    checks["C08"] = ("concmon", "exploration", "Go race detector + schedule forcing (a call held inside vhook pause windows while other calls run; perturbed free-running mixes; large-record hammer) + recorded-history oracles (stream monitors, porcupine linearizability vs the sequential model, final-state observation)",
        "No race report, no non-linearizable history, no monitor failure and no foreign error on all scenarios and histories executed.",
        "Trusted: Go race detector, porcupine v1.3.0, harness/ref model. Reach is what the windows and perturbation produce.", "5/C08")
    checks["C18"] = ("concmon", "exploration", "Go race detector + schedule forcing inside the notifier/blocking-wrapper windows (pkg/vhook points and a harness-side shim between wrapper and log) + event-log oracles (no park on immediate return, no unexplained wake or return, no parked eligible waiter at quiescence by goroutine wait state, results linearizable as Consume, cancel/close errors); all four constructors, read-only handles, noise calls and failing typed batches",
        "All placements and perturbed schedules executed satisfied the wake/park/result rules for both wrappers.",
        "Trusted: goroutine wait states from runtime.Stack, Go race detector, porcupine.", "5/C18")
    for k in ("C08", "C18"):
        pending.pop(k, None)
