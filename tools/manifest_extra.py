def update(checks, pending):
    checks["C13"] = ("fmtmon", "exploration", "differential codec monitor (klevdb writer/readers/mmap/Open vs an independent reference codec) + Stat/Size/growth audit on histmon states",
        "Bytes, positions, sizes and Stat agreed with the documented layout on every generated message shape and every reached state.",
        "Trusted: the layout transcription in harness/ref/codec.go (written from the documentation, not from klevdb's code).", "5/C13")
    checks["C19"] = ("lockmon", "exploration", "exhaustive fixed-length open/close/publish sequences against a lock-state automaton (in-process and cross-process) + read-only vs read-write differential sessions",
        "Every enumerated sequence obeyed the lock automaton; read-only handles answered like read-write ones and changed no log file.",
        "Trusted: kernel flock semantics.", "5/C19")
    for k in ("C13", "C19"):
        pending.pop(k, None)
