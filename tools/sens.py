#!/usr/bin/env python3
"""Sensitivity runs: apply hand-written regressions to /repo's working tree one at a time, check that the
repository suite still passes (so the regression is invisible to it), run the quick checks of the listed
properties and record which ones fire. /repo is restored (git checkout -- .) after every mutation.

usage: tools/sens.py [--only M1,M5] [--no-suite]
Results: seeded/own/results.json (+ one patch per mutation in seeded/own/<id>.diff)
"""
import json, os, subprocess, sys, time

V = os.path.dirname(os.path.dirname(os.path.abspath(__file__)))
ENV = dict(os.environ, GOFLAGS="-mod=mod", GOPROXY="off", GOSUMDB="off", GOTOOLCHAIN="local")

M = [
 # id, file, old, new, properties expected to fire, description
 ("M01", "log_reader.go", "\t\tif bytes.Equal(key, msg.Key) {\n\t\t\treturn msg, nil", "\t\tif true {\n\t\t\treturn msg, nil", ["C09"], "GetByKey: drop the byte comparison after the hash lookup"),
 ("M02", "log_reader.go", "\t\tif bytes.Equal(key, msg.Key) {\n\t\t\tmsgs = append(msgs, msg)", "\t\tif len(key) == len(msg.Key) {\n\t\t\tmsgs = append(msgs, msg)", ["C09"], "ConsumeByKey: compare key lengths only"),
 ("M03", "pkg/index/times.go", "\tcase endItem.Timestamp < ts:", "\tcase endItem.Timestamp <= ts:", ["C10"], "index.Time: <= instead of < at the end of the segment"),
 ("M04", "log.go", "\t\tif err := oldWriter.Sync(); err != nil {\n\t\t\treturn OffsetInvalid, err\n\t\t}\n", "", ["C06"], "rollover: do not fsync the old head"),
 ("M05", "log_writer.go", "\tif err := w.items.Sync(); err != nil {\n\t\treturn err\n\t}\n\treturn nil", "\treturn nil", ["C06"], "writer.Sync: fsync only the log, not the index"),
 ("M06", "pkg/segment/segment.go", "\tif err := dstLog.SyncAndClose(); err != nil {\n\t\treturn nil, err\n\t}", "\tif err := dstLog.Close(); err != nil {\n\t\treturn nil, err\n\t}", ["C06"], "Rewrite: no fsync of the rewritten log before it is renamed in"),
 ("M07", "log_writer.go", "\t\tposition, err := w.messages.Write(msgs[i])\n\t\tif err != nil {\n\t\t\treturn OffsetInvalid, err\n\t\t}\n\n\t\titems[i] = w.params.NewItem(msgs[i], position, indexTime)\n\t\tif err := w.items.Write(items[i]); err != nil {\n\t\t\treturn OffsetInvalid, err\n\t\t}",
  "\t\titems[i] = w.params.NewItem(msgs[i], w.messages.Size(), indexTime)\n\t\tif err := w.items.Write(items[i]); err != nil {\n\t\t\treturn OffsetInvalid, err\n\t\t}\n\t\tif _, err := w.messages.Write(msgs[i]); err != nil {\n\t\t\treturn OffsetInvalid, err\n\t\t}", ["C05"], "Publish: index item written before the record"),
 ("M08", "log_writer.go", "\t\twrt, err := openWriter(w.segment.NewAt(nextOffset), w.params, w.version, nextTime)\n\t\tif err != nil {\n\t\t\treturn nil, nil, err\n\t\t}\n\t\ttailWriter = wrt", "\t\t_ = nextOffset\n\t\twrt, err := openWriter(w.segment.NewAt(message.MinOffset(rs.SurviveOffsets)+int64(len(rs.SurviveOffsets))), w.params, w.version, nextTime)\n\t\tif err != nil {\n\t\t\treturn nil, nil, err\n\t\t}\n\t\ttailWriter = wrt", ["C02"], "tail delete: new head named after the survivors instead of the next offset"),
 ("M09", "log_writer.go", "\tif len(rs.SurviveOffsets)+len(rs.DeletedMessages) != w.index.Len() {", "\tif false {", ["C08"], "writer.Delete: remove the re-validation against concurrent appends"),
 ("M10", "pkg/notify/notify.go", "\t// set the new offset\n\tif w.nextOffset.Load() < nextOffset {\n\t\tw.nextOffset.Store(nextOffset)\n\t}\n", "", ["C18"], "notify.Set: forget to store the new offset (waiters wake, later waiters park although the offset passed)"),
 ("M11", "pkg/notify/notify.go", "\t// release current barrier\n\tw.barrier <- b\n\n\t// already has a new value, return\n\tif updated {\n\t\treturn nil\n\t}", "\t// already has a new value, return\n\tif updated {\n\t\tw.barrier <- b\n\t\treturn nil\n\t}\n\tb2 := b\n\tw.barrier <- make(chan struct{})\n\tb = b2", ["C18"], "notify.Wait: waiter re-arms the barrier itself (the channel it parks on is no longer the one Set closes)"),
 ("M12", "pkg/message/format.go", "\tcrc := crc32.Checksum(w.buff[4:], crc32cTable)\n\tbinary.BigEndian.PutUint32(w.buff[0:], crc)", "\tcrc := crc32.Checksum(w.buff[v2HeaderSize:], crc32cTable)\n\tbinary.BigEndian.PutUint32(w.buff[0:], crc)", ["C13"], "V2 writer: CRC over payload+trailer only (reader unchanged would fail, so change both)"),
 ("M13", "pkg/segment/segment.go", "\t\t\tdst.DeletedSize += message.Size(msg, srcVersion) + params.Size()", "\t\t\t_ = srcVersion\n\t\t\tdst.DeletedSize += message.Size(msg, mversion) + params.Size()", ["C12"], "Rewrite: deleted size computed in the target version"),
 ("M14", "trim_count.go", "\ttoRemove := stats.Messages - max", "\ttoRemove := stats.Messages - max - 1", ["C15"], "FindByCount off by one"),
 ("M15", "compact_updates.go", "\t\t\tif msg.Time.After(before) {\n\t\t\t\tbreak SEARCH\n\t\t\t}\n\n\t\t\tif prevMsgOffset", "\t\t\tif msg.Time.After(before) && len(msgs) == 0 {\n\t\t\t\tbreak SEARCH\n\t\t\t}\n\n\t\t\tif prevMsgOffset", ["C16"], "FindUpdates ignores the cut-off"),
 ("M16", "log.go", "\tif l.opts.Version.KeepRewriteVersion {\n\t\tvar detected", "\tif !l.opts.Version.KeepRewriteVersion {\n\t\tvar detected", ["C17"], "KeepRewriteVersion inverted"),
 ("M17", "log.go", "\tdefer func() {\n\t\tif err != nil {\n\t\t\tif lerr := lock.Unlock(); lerr != nil {\n\t\t\t\terr = fmt.Errorf(\"%w: open release lock: %w\", err, lerr)\n\t\t\t}\n\t\t}\n\t}()\n", "", ["C19"], "Open: the lock is not released when Open fails"),
 ("M18", "pkg/segment/utils.go", "\t\tcase stat.Size() == dstStat.Size() && stat.ModTime().Equal(dstStat.ModTime()):", "\t\tcase stat.Size() == dstStat.Size():", ["C20"], "copyFile skip check compares the size only"),
 ("M19", "log.go", "\tif err == index.ErrOffsetAfterEnd && segmentIndex < len(l.readers)-1 {\n\t\treturn msg, index.ErrOffsetNotFound\n\t}", "", ["C04"], "Get: offset after the end of a reader segment no longer mapped to not-found"),
 ("M20", "pkg/index/offset.go", "\tcase offset <= beginItem.Offset:\n\t\treturn beginItem.Position, items[len(items)-1].Position, nil", "\tcase offset < beginItem.Offset:\n\t\treturn beginItem.Position, items[len(items)-1].Position, nil", ["C03"], "index.Consume: < instead of <= at the first item (falls into the binary search; still right) - control: must NOT fire"),
 ("M21", "pkg/segment/index.go", "\tif endSegment.GetOffset() <= offset {\n\t\treturn endSegment, endIndex\n\t}\n\n\tfor beginIndex < endIndex {\n\t\tmidIndex := (beginIndex + endIndex) / 2\n\t\tmidSegment := segments[midIndex]\n\t\tswitch {\n\t\tcase midSegment.GetOffset() < offset:\n\t\t\tbeginIndex = midIndex + 1\n\t\tcase midSegment.GetOffset() > offset:\n\t\t\tendIndex = midIndex - 1\n\t\tdefault:\n\t\t\treturn midSegment, midIndex\n\t\t}\n\t}\n\n\tif segments[beginIndex].GetOffset() > offset {\n\t\treturn segments[beginIndex-1], beginIndex - 1\n\t}\n\treturn segments[beginIndex], beginIndex\n}\n\nvar ErrOffsetRelative",
  "\tif endSegment.GetOffset() <= offset {\n\t\treturn endSegment, endIndex\n\t}\n\n\tfor beginIndex < endIndex {\n\t\tmidIndex := (beginIndex + endIndex) / 2\n\t\tmidSegment := segments[midIndex]\n\t\tswitch {\n\t\tcase midSegment.GetOffset() < offset:\n\t\t\tbeginIndex = midIndex + 1\n\t\tcase midSegment.GetOffset() > offset:\n\t\t\tendIndex = midIndex - 1\n\t\tdefault:\n\t\t\treturn midSegment, midIndex\n\t\t}\n\t}\n\n\treturn segments[beginIndex], beginIndex\n}\n\nvar ErrOffsetRelative", ["C03"], "segment.Consume: drop the step back to the previous segment after the binary search"),
 ("M22", "pkg/segment/segment.go", "\tif corrupted {\n\t\tif err := os.Rename(restore.Path, log.Path); err != nil {", "\tif corrupted && len(restoreIndex) > 0 {\n\t\tif err := os.Rename(restore.Path, log.Path); err != nil {", ["C07"], "Recover: keeps the damaged log when no record at all is valid"),
 ("M23", "log.go", "\t\tl.readersMu.Lock()\n\n\t\tl.readers[len(l.readers)-1] = oldReader\n\t\tl.writer = newWriter\n\t\tl.readers = append(l.readers, newWriter.reader)\n\n\t\tl.readersMu.Unlock()", "\t\tl.readersMu.Lock()\n\t\tl.readers[len(l.readers)-1] = oldReader\n\t\tl.readersMu.Unlock()\n\n\t\tl.writer = newWriter\n\n\t\tl.readersMu.Lock()\n\t\tl.readers = append(l.readers, newWriter.reader)\n\t\tl.readersMu.Unlock()", ["C08"], "rollover: swap in two critical sections (readers see the old head as a reader but no new head)"),
 ("M24", "pkg/message/format.go", "\tif int(keySize)+int(valueSize) > maxMessageBodySize {\n\t\treturn -1, errInvalidHeader\n\t}\n\tposition += v2HeaderSize", "\tposition += v2HeaderSize", ["C14"], "V2 reader: drop the 64 MiB sanity bound on the length fields"),
 ("M25", "log.go", "\tif l.opts.AutoSync {\n\t\tif err := l.writer.Sync(); err != nil {\n\t\t\treturn OffsetInvalid, err\n\t\t}\n\t}\n\n\treturn nextOffset, nil", "\tif l.opts.AutoSync && len(msgs) > 1 {\n\t\tif err := l.writer.Sync(); err != nil {\n\t\t\treturn OffsetInvalid, err\n\t\t}\n\t}\n\n\treturn nextOffset, nil", ["C06"], "AutoSync skipped for single-message batches"),
 ("M26", "pkg/segment/segment.go", "\tif err := migratedLog.SyncAndClose(); err != nil {", "\tif err := migratedLog.Close(); err != nil {", ["C06"], "Migrate: no fsync of the migrated log before the rename"),
 ("M27", "log_reader.go", "\tif r.messages == nil || r.messagesInuse.Load() > 0 {\n\t\treturn nil\n\t}\n\n\tif err := r.messages.Close(); err != nil {\n\t\treturn err\n\t}\n\tr.messages = nil\n\treturn nil\n}\n\nfunc (r *reader) Close()", "\tif r.messages == nil {\n\t\treturn nil\n\t}\n\n\tif err := r.messages.Close(); err != nil {\n\t\treturn err\n\t}\n\tr.messages = nil\n\treturn nil\n}\n\nfunc (r *reader) Close()", ["C08"], "GC unmaps a reader's log while a Consume is using it"),
 ("M28", "log_blocking.go", "\treturn &blockingLog{l, notify.NewOffset(next)}, nil", "\t_ = next\n\treturn &blockingLog{l, notify.NewOffset(0)}, nil", ["C18"], "WrapBlocking: the notifier of a wrapper opened over an existing log starts at 0"),
 ("M29", "typed.go", "\ttmessages := make([]TMessage[K, V], len(messages))\n\tfor i, msg := range messages {\n\t\ttmessages[i], err = l.decode(msg)\n\t\tif err != nil {\n\t\t\treturn OffsetInvalid, nil, err\n\t\t}\n\t}\n\treturn nextOffset, tmessages, nil\n}\n\nfunc (l *tlog[K, V]) ConsumeByKey", "\ttmessages := make([]TMessage[K, V], len(messages))\n\tfor i, msg := range messages {\n\t\ttmessages[i], err = l.decode(msg)\n\t\tif err != nil {\n\t\t\treturn OffsetInvalid, nil, err\n\t\t}\n\t}\n\tif len(tmessages) > 2 {\n\t\ttmessages = tmessages[:2]\n\t}\n\treturn nextOffset, tmessages, nil\n}\n\nfunc (l *tlog[K, V]) ConsumeByKey", ["C01", "C03"], "typed Consume: returns at most two messages but the raw next offset"),
 ("M30", "typed.go", "\tmsg, err := l.Log.GetByKey(kbytes)\n\tif err != nil {\n\t\treturn TMessage[K, V]{Offset: OffsetInvalid}, err\n\t}\n\treturn l.decode(msg)", "\toff, err := l.Log.OffsetByKey(kbytes)\n\tif err != nil {\n\t\treturn TMessage[K, V]{Offset: OffsetInvalid}, err\n\t}\n\tmsg, err := l.Log.Get(off + 1)\n\tif err != nil {\n\t\tmsg, err = l.Log.Get(off)\n\t}\n\tif err != nil {\n\t\treturn TMessage[K, V]{Offset: OffsetInvalid}, err\n\t}\n\treturn l.decode(msg)", ["C09"], "typed GetByKey: returns the message after the one found when there is one"),
 ("M31", "delete.go", "\t\tdeletedSize += size\n\t\tfor _, msg := range deleted {\n\t\t\tdeletedOffsets[msg.Offset] = struct{}{}\n\t\t\tdelete(remainingOffsets, msg.Offset)\n\t\t}\n\n\t\tif err := backoff(ctx); err != nil {\n\t\t\treturn deletedOffsets, deletedSize, err\n\t\t}", "\t\tif err := backoff(ctx); err != nil {\n\t\t\treturn deletedOffsets, deletedSize, err\n\t\t}\n\t\tdeletedSize += size\n\t\tfor _, msg := range deleted {\n\t\t\tdeletedOffsets[msg.Offset] = struct{}{}\n\t\t\tdelete(remainingOffsets, msg.Offset)\n\t\t}", ["C12"], "DeleteMultiOffsets: a round stopped by the backoff is executed but not reported"),
]

def sh(cmd, cwd=None, timeout=3600):
    return subprocess.run(cmd, shell=True, cwd=cwd, env=ENV, capture_output=True, text=True, timeout=timeout)

def main():
    only = None
    suite = True
    for a in sys.argv[1:]:
        if a.startswith("--only"):
            only = set(sys.argv[sys.argv.index(a) + 1].split(","))
        if a == "--no-suite":
            suite = False
    os.makedirs(os.path.join(V, "seeded", "own"), exist_ok=True)
    respath = os.path.join(V, "seeded", "own", "results.json")
    results = json.load(open(respath)) if os.path.exists(respath) else {}
    assert sh("git status --porcelain", "/repo").stdout.strip() == "", "/repo working tree not clean"
    for mid, f, old, new, props, desc in M:
        if only and mid not in only:
            continue
        path = os.path.join("/repo", f)
        src = open(path).read()
        if src.count(old) != 1:
            print(mid, "ANCHOR NOT FOUND/NOT UNIQUE in", f, src.count(old)); continue
        try:
            if mid == "M12":
                # symmetric change: reader verifies the same shortened range
                src2 = src.replace(old, new)
                ro = "\tactualCRC := crc32.Checksum(payload, crc32cTable)"
                assert src2.count(ro) == 1
                src2 = src2.replace(ro, "\tactualCRC := crc32.Checksum(payload[headerPayloadSize:], crc32cTable)")
                open(path, "w").write(src2)
            else:
                open(path, "w").write(src.replace(old, new))
            sh("gofmt -w " + f, "/repo")
            diff = sh("git diff", "/repo").stdout
            open(os.path.join(V, "seeded", "own", mid + ".diff"), "w").write(diff)
            b = sh("go1.26.8 build ./...", "/repo")
            if b.returncode != 0:
                print(mid, "DOES NOT BUILD", b.stderr[:300]); continue
            r = {"description": desc, "file": f, "expected": props, "checks": {}}
            if suite:
                t = sh("go1.26.8 test -count=1 ./...", "/repo")
                r["suite_passes"] = t.returncode == 0
                if t.returncode != 0:
                    r["suite_output"] = (t.stdout + t.stderr)[-600:]
            for p in props:
                t0 = time.time()
                c = sh("./check %s --tier quick" % p, V)
                fired = [l for l in c.stdout.splitlines() if l.startswith("VIOLATION")]
                sigs = [l.strip() for l in c.stdout.splitlines() if l.strip().startswith("signature:")]
                r["checks"][p] = {"exit": c.returncode, "violations": len(fired), "signatures": sigs[:4], "wall_s": round(time.time() - t0, 1)}
                print(mid, p, "exit", c.returncode, "violations", len(fired), sigs[:1], flush=True)
            results[mid] = r
            json.dump(results, open(respath, "w"), indent=1)
        finally:
            sh("git checkout -- .", "/repo")
    assert sh("git status --porcelain", "/repo").stdout.strip() == ""

main()
